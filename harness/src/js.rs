//! Exact JSON values for C06/C07: a strict RFC 8259 parser that keeps number literals exact and
//! duplicate keys, a compact serialiser (serde_json's output format), spaced/pretty variants, the
//! s-expression transport to the Lean validator S5, and an instance generator.
use serde_json::Value;

use crate::rng::Rng;

#[derive(Clone, Debug, PartialEq)]
pub enum JV {
    Null,
    Bool(bool),
    /// (-1)^neg * mant * 10^exp, mant as decimal digits without leading zeros ("0" for zero)
    Num { neg: bool, mant: String, exp: i64 },
    Str(String),
    Arr(Vec<JV>),
    Obj(Vec<(String, JV)>),
}

pub fn parse(text: &[u8]) -> Result<JV, String> {
    let mut p = P { s: text, i: 0 };
    p.ws();
    let v = p.value(0)?;
    p.ws();
    if p.i != text.len() { return Err(format!("trailing bytes at {}", p.i)); }
    Ok(v)
}

struct P<'a> { s: &'a [u8], i: usize }

impl<'a> P<'a> {
    fn ws(&mut self) { while self.i < self.s.len() && matches!(self.s[self.i], b' ' | b'\t' | b'\n' | b'\r') { self.i += 1; } }
    fn peek(&self) -> Option<u8> { self.s.get(self.i).copied() }
    fn lit(&mut self, l: &[u8]) -> bool { if self.s[self.i..].starts_with(l) { self.i += l.len(); true } else { false } }
    fn value(&mut self, depth: usize) -> Result<JV, String> {
        if depth > 200 { return Err("too deep".into()); }
        match self.peek() {
            None => Err("unexpected end".into()),
            Some(b'n') => if self.lit(b"null") { Ok(JV::Null) } else { Err("bad literal".into()) },
            Some(b't') => if self.lit(b"true") { Ok(JV::Bool(true)) } else { Err("bad literal".into()) },
            Some(b'f') => if self.lit(b"false") { Ok(JV::Bool(false)) } else { Err("bad literal".into()) },
            Some(b'"') => Ok(JV::Str(self.string()?)),
            Some(b'[') => {
                self.i += 1; self.ws();
                let mut xs = vec![];
                if self.peek() == Some(b']') { self.i += 1; return Ok(JV::Arr(xs)); }
                loop {
                    self.ws();
                    xs.push(self.value(depth + 1)?);
                    self.ws();
                    match self.peek() { Some(b',') => self.i += 1, Some(b']') => { self.i += 1; return Ok(JV::Arr(xs)); } _ => return Err(format!("expected , or ] at {}", self.i)) }
                }
            }
            Some(b'{') => {
                self.i += 1; self.ws();
                let mut kvs = vec![];
                if self.peek() == Some(b'}') { self.i += 1; return Ok(JV::Obj(kvs)); }
                loop {
                    self.ws();
                    if self.peek() != Some(b'"') { return Err(format!("expected key at {}", self.i)); }
                    let k = self.string()?;
                    self.ws();
                    if self.peek() != Some(b':') { return Err(format!("expected : at {}", self.i)); }
                    self.i += 1; self.ws();
                    let v = self.value(depth + 1)?;
                    kvs.push((k, v));
                    self.ws();
                    match self.peek() { Some(b',') => self.i += 1, Some(b'}') => { self.i += 1; return Ok(JV::Obj(kvs)); } _ => return Err(format!("expected , or }} at {}", self.i)) }
                }
            }
            Some(b'-') | Some(b'0'..=b'9') => self.number(),
            Some(c) => Err(format!("unexpected byte {c:#x} at {}", self.i)),
        }
    }
    fn hex4(&mut self) -> Result<u32, String> {
        if self.i + 4 > self.s.len() { return Err("short \\u".into()); }
        let h = std::str::from_utf8(&self.s[self.i..self.i + 4]).map_err(|_| "bad \\u")?;
        let v = u32::from_str_radix(h, 16).map_err(|_| "bad \\u digits")?;
        if !h.bytes().all(|b| b.is_ascii_hexdigit()) { return Err("bad \\u digits".into()); }
        self.i += 4;
        Ok(v)
    }
    fn string(&mut self) -> Result<String, String> {
        self.i += 1;
        let mut out: Vec<u8> = vec![];
        loop {
            let Some(c) = self.peek() else { return Err("unterminated string".into()) };
            self.i += 1;
            match c {
                b'"' => break,
                b'\\' => {
                    let Some(e) = self.peek() else { return Err("unterminated escape".into()) };
                    self.i += 1;
                    match e {
                        b'"' => out.push(b'"'), b'\\' => out.push(b'\\'), b'/' => out.push(b'/'), b'b' => out.push(8), b'f' => out.push(12), b'n' => out.push(b'\n'), b'r' => out.push(b'\r'), b't' => out.push(b'\t'),
                        b'u' => {
                            let mut cp = self.hex4()?;
                            if (0xD800..0xDC00).contains(&cp) {
                                if !self.lit(b"\\u") { return Err("lone leading surrogate".into()); }
                                let lo = self.hex4()?;
                                if !(0xDC00..0xE000).contains(&lo) { return Err("bad trailing surrogate".into()); }
                                cp = 0x10000 + ((cp - 0xD800) << 10) + (lo - 0xDC00);
                            } else if (0xDC00..0xE000).contains(&cp) { return Err("lone trailing surrogate".into()); }
                            let ch = char::from_u32(cp).ok_or("bad code point")?;
                            let mut b = [0u8; 4];
                            out.extend_from_slice(ch.encode_utf8(&mut b).as_bytes());
                        }
                        _ => return Err(format!("bad escape \\{}", e as char)),
                    }
                }
                0..=0x1f => return Err("control character in string".into()),
                _ => out.push(c),
            }
        }
        String::from_utf8(out).map_err(|_| "invalid UTF-8 in string".to_string())
    }
    fn number(&mut self) -> Result<JV, String> {
        let neg = self.peek() == Some(b'-');
        if neg { self.i += 1; }
        let st = self.i;
        match self.peek() { Some(b'0') => self.i += 1, Some(b'1'..=b'9') => { while matches!(self.peek(), Some(b'0'..=b'9')) { self.i += 1; } } _ => return Err("bad number".into()) }
        let ip = std::str::from_utf8(&self.s[st..self.i]).unwrap().to_string();
        let mut fp = String::new();
        if self.peek() == Some(b'.') {
            self.i += 1;
            let fs = self.i;
            while matches!(self.peek(), Some(b'0'..=b'9')) { self.i += 1; }
            if self.i == fs { return Err("no digits after .".into()); }
            fp = std::str::from_utf8(&self.s[fs..self.i]).unwrap().to_string();
        }
        let mut exp: i64 = 0;
        if matches!(self.peek(), Some(b'e') | Some(b'E')) {
            self.i += 1;
            let mut eneg = false;
            match self.peek() { Some(b'+') => self.i += 1, Some(b'-') => { eneg = true; self.i += 1; } _ => {} }
            let es = self.i;
            while matches!(self.peek(), Some(b'0'..=b'9')) { self.i += 1; }
            if self.i == es { return Err("no exponent digits".into()); }
            // exponents beyond i64 are still well-formed JSON: saturate (such values are not validated exactly)
            let e: i64 = std::str::from_utf8(&self.s[es..self.i]).unwrap().parse().unwrap_or(i64::MAX / 4);
            exp = if eneg { -e } else { e };
        }
        let digits = format!("{ip}{fp}");
        let mant = digits.trim_start_matches('0').to_string();
        Ok(JV::Num { neg, mant: if mant.is_empty() { "0".into() } else { mant }, exp: exp - fp.len() as i64 })
    }
}

pub fn max_abs_exp(v: &JV) -> i64 {
    match v {
        JV::Num { exp, .. } => exp.abs(),
        JV::Arr(xs) => xs.iter().map(max_abs_exp).max().unwrap_or(0),
        JV::Obj(kvs) => kvs.iter().map(|(_, x)| max_abs_exp(x)).max().unwrap_or(0),
        _ => 0,
    }
}

pub fn from_value(v: &Value) -> JV {
    match v {
        Value::Null => JV::Null,
        Value::Bool(b) => JV::Bool(*b),
        Value::Number(n) => parse(n.to_string().as_bytes()).unwrap_or(JV::Null),
        Value::String(s) => JV::Str(s.clone()),
        Value::Array(a) => JV::Arr(a.iter().map(from_value).collect()),
        Value::Object(o) => JV::Obj(o.iter().map(|(k, v)| (k.clone(), from_value(v))).collect()),
    }
}

fn hex_or_dash(b: &[u8]) -> String { if b.is_empty() { "-".into() } else { b.iter().map(|x| format!("{x:02x}")).collect() } }

pub fn to_sexp(v: &JV) -> String {
    match v {
        JV::Null => "n".into(),
        JV::Bool(true) => "t".into(),
        JV::Bool(false) => "f".into(),
        JV::Num { neg, mant, exp } => format!("(num {} {} {})", if *neg { 1 } else { 0 }, mant, exp),
        JV::Str(s) => format!("(s {})", hex_or_dash(s.as_bytes())),
        JV::Arr(xs) => format!("(a{})", xs.iter().map(|x| format!(" {}", to_sexp(x))).collect::<String>()),
        JV::Obj(kvs) => format!("(o{})", kvs.iter().map(|(k, x)| format!(" ({} {})", hex_or_dash(k.as_bytes()), to_sexp(x))).collect::<String>()),
    }
}

fn ser_str(s: &str, out: &mut String) {
    out.push('"');
    for c in s.chars() {
        match c {
            '"' => out.push_str("\\\""), '\\' => out.push_str("\\\\"), '\n' => out.push_str("\\n"), '\r' => out.push_str("\\r"), '\t' => out.push_str("\\t"),
            '\u{8}' => out.push_str("\\b"), '\u{c}' => out.push_str("\\f"),
            c if (c as u32) < 0x20 => out.push_str(&format!("\\u{:04x}", c as u32)),
            c => out.push(c),
        }
    }
    out.push('"');
}

fn ser_num(neg: bool, mant: &str, exp: i64, out: &mut String) {
    // plain decimal spelling (no exponent), as a standard serialiser prints ordinary numbers
    if neg && mant != "0" { out.push('-'); }
    if exp >= 0 { out.push_str(mant); if mant != "0" { for _ in 0..exp { out.push('0'); } } }
    else {
        let k = (-exp) as usize;
        let m = if mant.len() <= k { format!("{}{}", "0".repeat(k - mant.len() + 1), mant) } else { mant.to_string() };
        let (a, b) = m.split_at(m.len() - k);
        out.push_str(a); out.push('.'); out.push_str(b);
    }
}

/// style 0: compact; 1: `, ` and `: ` separators; 2: pretty with two-space indentation
pub fn serialize(v: &JV, style: u8) -> String { let mut s = String::new(); ser(v, style, 0, &mut s); s }

fn ser(v: &JV, style: u8, ind: usize, out: &mut String) {
    let nl = |out: &mut String, ind: usize| { if style == 2 { out.push('\n'); for _ in 0..ind { out.push_str("  "); } } };
    match v {
        JV::Null => out.push_str("null"),
        JV::Bool(b) => out.push_str(if *b { "true" } else { "false" }),
        JV::Num { neg, mant, exp } => ser_num(*neg, mant, *exp, out),
        JV::Str(s) => ser_str(s, out),
        JV::Arr(xs) => {
            out.push('[');
            for (i, x) in xs.iter().enumerate() { if i > 0 { out.push(','); if style == 1 { out.push(' '); } } nl(out, ind + 1); ser(x, style, ind + 1, out); }
            if !xs.is_empty() { nl(out, ind); }
            out.push(']');
        }
        JV::Obj(kvs) => {
            out.push('{');
            for (i, (k, x)) in kvs.iter().enumerate() { if i > 0 { out.push(','); if style == 1 { out.push(' '); } } nl(out, ind + 1); ser_str(k, out); out.push(':'); if style != 0 { out.push(' '); } ser(x, style, ind + 1, out); }
            if !kvs.is_empty() { nl(out, ind); }
            out.push('}');
        }
    }
}

// ---------- instance generation (candidates; the Lean validator decides validity) ----------

fn num_of(s: &str) -> JV { parse(s.as_bytes()).unwrap() }

fn resolve<'a>(root: &'a Value, r: &str) -> Option<&'a Value> {
    if r == "#" { return Some(root); }
    if let Some(n) = r.strip_prefix("#/$defs/") { return root.get("$defs")?.get(n); }
    if let Some(n) = r.strip_prefix("#/definitions/") { return root.get("definitions")?.get(n); }
    None
}

fn rand_string(rng: &mut Rng, lo: usize, hi: usize) -> String {
    let alpha = ["a", "b", "Z", "0", " ", "\"", "\\", "é", "日", "\n", "/", "🐢", "\t", "x"];
    let n = lo + rng.below(hi.saturating_sub(lo) + 1);
    (0..n).map(|_| alpha[rng.below(alpha.len())]).collect()
}

pub fn gen_any(rng: &mut Rng, depth: usize) -> JV {
    match rng.below(if depth > 1 { 4 } else { 6 }) {
        0 => JV::Null,
        1 => JV::Bool(rng.chance(1, 2)),
        2 => num_of(["0", "1", "-7", "2.5", "100", "-0.125"][rng.below(6)]),
        3 => JV::Str(rand_string(rng, 0, 3)),
        4 => JV::Arr((0..rng.below(3)).map(|_| gen_any(rng, depth + 1)).collect()),
        _ => JV::Obj((0..rng.below(3)).map(|i| (format!("x{i}"), gen_any(rng, depth + 1))).collect()),
    }
}

fn dec_str(v: &Value) -> Option<String> { v.as_number().map(|n| n.to_string()) }

fn gen_number(rng: &mut Rng, s: &Value, integer: bool) -> JV {
    let mut cands: Vec<String> = vec![];
    let f = |k: &str| s.get(k).and_then(dec_str);
    let shift = |b: &str, d: f64| -> String { let x: f64 = b.parse().unwrap_or(0.0); let y = x + d; if y.fract() == 0.0 && y.abs() < 1e15 { format!("{}", y as i64) } else { format!("{y}") } };
    for (k, ds) in [("minimum", [0.0, 1.0, 0.5, 7.0]), ("exclusiveMinimum", [1.0, 0.5, 0.25, 3.0]), ("maximum", [0.0, -1.0, -0.5, -7.0]), ("exclusiveMaximum", [-1.0, -0.5, -0.25, -3.0])] {
        if let Some(b) = f(k) { for d in ds { cands.push(shift(&b, d)); } }
    }
    if let Some(m) = f("multipleOf") { let x: f64 = m.parse().unwrap_or(1.0); for k in [-3.0, 0.0, 1.0, 2.0, 5.0, 10.0, 40.0] { cands.push(shift("0", x * k)); } }
    for c in ["0", "1", "-1", "17", "3.5", "-2.25", "1000", "0.1"] { cands.push(c.to_string()); }
    let mut c = cands[rng.below(cands.len())].clone();
    if integer { if let Some((a, _)) = c.split_once('.') { c = a.to_string(); } if c == "-" || c.is_empty() || c == "-0" { c = "0".into(); } }
    if c.contains('e') || c.contains("inf") || c.contains("NaN") { c = "0".into(); }
    num_of(&c)
}

pub fn gen_instance(rng: &mut Rng, root: &Value, s: &Value, depth: usize) -> JV {
    if depth > 6 { return JV::Null; }
    let Some(o) = s.as_object() else { return gen_any(rng, depth) };
    if let Some(r) = o.get("$ref").and_then(|r| r.as_str()) { if let Some(t) = resolve(root, r) { return gen_instance(rng, root, t, depth + 1); } }
    if let Some(c) = o.get("const") { return from_value(c); }
    if let Some(e) = o.get("enum").and_then(|e| e.as_array()) { if !e.is_empty() { return from_value(&e[rng.below(e.len())]); } }
    for k in ["anyOf", "oneOf"] { if let Some(a) = o.get(k).and_then(|a| a.as_array()) { if !a.is_empty() { let k = rng.below(a.len()); return gen_instance(rng, root, &a[k], depth + 1); } } }
    if let Some(a) = o.get("allOf").and_then(|a| a.as_array()) { if !a.is_empty() { let k = rng.below(a.len()); return gen_instance(rng, root, &a[k], depth + 1); } }
    let ty: String = match o.get("type") {
        Some(Value::String(t)) => t.clone(),
        Some(Value::Array(ts)) if !ts.is_empty() => ts[rng.below(ts.len())].as_str().unwrap_or("null").to_string(),
        _ => {
            if o.contains_key("properties") || o.contains_key("required") || o.contains_key("additionalProperties") { "object".into() }
            else if o.contains_key("items") || o.contains_key("prefixItems") || o.contains_key("minItems") { "array".into() }
            else if o.contains_key("minLength") || o.contains_key("maxLength") { "string".into() }
            else if o.contains_key("minimum") || o.contains_key("maximum") || o.contains_key("multipleOf") || o.contains_key("exclusiveMinimum") || o.contains_key("exclusiveMaximum") { "number".into() }
            else { return gen_any(rng, depth); }
        }
    };
    match ty.as_str() {
        "null" => JV::Null,
        "boolean" => JV::Bool(rng.chance(1, 2)),
        "integer" => gen_number(rng, s, true),
        "number" => gen_number(rng, s, false),
        "string" => {
            let lo = o.get("minLength").and_then(|v| v.as_u64()).unwrap_or(0) as usize;
            let hi = o.get("maxLength").and_then(|v| v.as_u64()).map(|v| v as usize).unwrap_or(lo + 4);
            JV::Str(rand_string(rng, lo, hi.max(lo)))
        }
        "array" => {
            let pre: Vec<Value> = o.get("prefixItems").and_then(|p| p.as_array()).cloned().unwrap_or_default();
            let lo = o.get("minItems").and_then(|v| v.as_u64()).unwrap_or(0) as usize;
            let hi = o.get("maxItems").and_then(|v| v.as_u64()).map(|v| v as usize).unwrap_or(lo + 3);
            let n = lo + rng.below(hi.saturating_sub(lo) + 1);
            let items = o.get("items");
            JV::Arr((0..n).map(|i| if i < pre.len() { gen_instance(rng, root, &pre[i], depth + 1) } else { match items { Some(it) => gen_instance(rng, root, it, depth + 1), None => gen_any(rng, depth + 1) } }).collect())
        }
        _ => {
            let props = o.get("properties").and_then(|p| p.as_object()).cloned().unwrap_or_default();
            let req: Vec<String> = o.get("required").and_then(|r| r.as_array()).map(|a| a.iter().filter_map(|x| x.as_str().map(|s| s.to_string())).collect()).unwrap_or_default();
            let mut kvs = vec![];
            for (k, ps) in props.iter() {
                if req.contains(k) || rng.chance(1, 2) { kvs.push((k.clone(), gen_instance(rng, root, ps, depth + 1))); }
            }
            // required keys that are not listed under properties come after the listed ones
            for r in &req { if !props.contains_key(r) { let ap = o.get("additionalProperties"); kvs.push((r.clone(), match ap { Some(a) => gen_instance(rng, root, a, depth + 1), None => gen_any(rng, depth + 1) })); } }
            match o.get("additionalProperties") {
                Some(Value::Bool(false)) => {}
                ap => {
                    for i in 0..rng.below(3) {
                        let k = ["extra", "z9", "k\"q"][i].to_string();
                        if props.contains_key(&k) || req.contains(&k) { continue; }
                        kvs.push((k, match ap { Some(a) => gen_instance(rng, root, a, depth + 1), None => gen_any(rng, depth + 1) }));
                    }
                }
            }
            JV::Obj(kvs)
        }
    }
}
