//! Random Lark grammars (core fragment) with sampling of member strings.
use crate::rng::Rng;
use crate::rx::{gen_rx, Rx, ALPHA};

#[derive(Clone, Debug)]
pub enum Ex {
    Lit(String),
    Term(usize),
    Rule(usize),
    Seq(Vec<Ex>),
    Alt(Vec<Ex>),
    Opt(Box<Ex>),
    Star(Box<Ex>),
    Plus(Box<Ex>),
    Rep(Box<Ex>, u32, u32),
}

#[derive(Clone, Debug)]
pub struct LarkG {
    pub rules: Vec<Ex>,  // rule 0 = start
    pub terms: Vec<Rx>,
    pub ignore: Option<Rx>,
}

fn lit_str(s: &str) -> String {
    let mut o = String::from("\"");
    for c in s.chars() {
        match c {
            '"' => o.push_str("\\\""),
            '\\' => o.push_str("\\\\"),
            '\n' => o.push_str("\\n"),
            _ => o.push(c),
        }
    }
    o.push('"');
    o
}

impl LarkG {
    fn rule_name(i: usize) -> String {
        if i == 0 { "start".into() } else { format!("r{i}") }
    }
    fn ex_str(&self, e: &Ex, top: bool) -> String {
        match e {
            Ex::Lit(s) => lit_str(s),
            Ex::Term(i) => format!("T{i}"),
            Ex::Rule(i) => Self::rule_name(*i),
            Ex::Seq(xs) => {
                let s = xs.iter().map(|x| self.ex_str(x, false)).collect::<Vec<_>>().join(" ");
                if top { s } else { format!("({s})") }
            }
            Ex::Alt(xs) => {
                let s = xs.iter().map(|x| match x { Ex::Seq(_) => self.ex_str(x, true), _ => self.ex_str(x, false) }).collect::<Vec<_>>().join(" | ");
                if top { s } else { format!("({s})") }
            }
            Ex::Opt(x) => format!("{}?", self.ex_str(x, false)),
            Ex::Star(x) => format!("{}*", self.ex_str(x, false)),
            Ex::Plus(x) => format!("{}+", self.ex_str(x, false)),
            Ex::Rep(x, m, n) => format!("{}{{{m},{n}}}", self.ex_str(x, false)),
        }
    }
    pub fn to_lark(&self) -> String {
        let mut o = String::new();
        for (i, r) in self.rules.iter().enumerate() {
            let body = self.ex_str(r, true);
            o.push_str(&format!("{}: {}\n", Self::rule_name(i), if body.is_empty() { "\"\"".to_string() } else { body }));
        }
        for (i, t) in self.terms.iter().enumerate() {
            o.push_str(&format!("T{i}: /{}/\n", t.to_regex()));
        }
        if let Some(ig) = &self.ignore {
            o.push_str(&format!("%ignore /{}/\n", ig.to_regex()));
        }
        o
    }
    pub fn sample(&self, rng: &mut Rng, out: &mut String) {
        self.sample_ex(&self.rules[0], rng, 6, out);
    }
    fn sample_ex(&self, e: &Ex, rng: &mut Rng, depth: u32, out: &mut String) {
        match e {
            Ex::Lit(s) => out.push_str(s),
            Ex::Term(i) => self.terms[*i].sample(rng, ALPHA, out),
            Ex::Rule(i) => {
                if depth == 0 {
                    // cut recursion: rules with a larger index are non-recursive towards smaller ones
                    self.sample_ex(&self.rules[*i], rng, 0, out)
                } else {
                    self.sample_ex(&self.rules[*i], rng, depth - 1, out)
                }
            }
            Ex::Seq(xs) => xs.iter().for_each(|x| self.sample_ex(x, rng, depth, out)),
            Ex::Alt(xs) => {
                // at depth 0 prefer the last alternative (generator puts a non-recursive one last)
                let k = if depth == 0 { xs.len() - 1 } else { rng.below(xs.len()) };
                self.sample_ex(&xs[k], rng, depth, out)
            }
            Ex::Opt(x) => if depth > 0 && rng.chance(1, 2) { self.sample_ex(x, rng, depth, out) },
            Ex::Star(x) => { let k = if depth == 0 { 0 } else { rng.below(3) }; for _ in 0..k { self.sample_ex(x, rng, depth.saturating_sub(1), out) } }
            Ex::Plus(x) => { let k = if depth == 0 { 1 } else { 1 + rng.below(2) }; for _ in 0..k { self.sample_ex(x, rng, depth.saturating_sub(1), out) } }
            Ex::Rep(x, m, n) => { let k = if depth == 0 { *m } else { *m + rng.below((*n - *m + 1) as usize) as u32 }; for _ in 0..k { self.sample_ex(x, rng, depth.saturating_sub(1), out) } }
        }
    }
}

const LITS: &[&str] = &["a", "b", "ab", "x", "y", "(", ")", ",", "1", "2", "if", "é", "[", "]", "::", "bc"];

fn gen_atom(rng: &mut Rng, me: usize, n_rules: usize, n_terms: usize, allow_back: bool) -> Ex {
    match rng.below(10) {
        0..=3 => Ex::Lit(rng.pick(LITS).to_string()),
        4 | 5 if n_terms > 0 => Ex::Term(rng.below(n_terms)),
        6 | 7 if me + 1 < n_rules => Ex::Rule(me + 1 + rng.below(n_rules - me - 1)),
        8 if allow_back => Ex::Rule(rng.below(me + 1)), // recursion (left, right or mutual)
        _ => Ex::Lit(rng.pick(LITS).to_string()),
    }
}

fn gen_seq(rng: &mut Rng, me: usize, n_rules: usize, n_terms: usize, allow_back: bool, depth: u32) -> Ex {
    let n = 1 + rng.below(3);
    let mut xs = vec![];
    for _ in 0..n {
        let a = if depth > 0 && rng.chance(1, 5) {
            gen_body(rng, me, n_rules, n_terms, allow_back, depth - 1)
        } else {
            gen_atom(rng, me, n_rules, n_terms, allow_back)
        };
        let a = match rng.below(12) {
            0 => Ex::Opt(Box::new(a)),
            1 => Ex::Star(Box::new(a)),
            2 => Ex::Plus(Box::new(a)),
            3 => { let m = rng.below(3) as u32; Ex::Rep(Box::new(a), m, m + 1 + rng.below(2) as u32) }
            _ => a,
        };
        xs.push(a);
    }
    if xs.len() == 1 { xs.pop().unwrap() } else { Ex::Seq(xs) }
}

fn gen_body(rng: &mut Rng, me: usize, n_rules: usize, n_terms: usize, allow_back: bool, depth: u32) -> Ex {
    let n_alt = 1 + rng.below(3);
    if n_alt == 1 && !allow_back {
        return gen_seq(rng, me, n_rules, n_terms, false, depth);
    }
    let mut alts: Vec<Ex> = (0..n_alt).map(|_| gen_seq(rng, me, n_rules, n_terms, allow_back, depth)).collect();
    // the last alternative never refers backwards, so every rule is productive
    alts.push(gen_seq(rng, me, n_rules, n_terms, false, 0));
    Ex::Alt(alts)
}

/// general core-fragment grammar: regex terminals, recursion, repetition, optional %ignore
pub fn gen_lark(rng: &mut Rng) -> LarkG {
    let n_rules = 1 + rng.below(4);
    let n_terms = rng.below(3);
    let terms: Vec<Rx> = (0..n_terms).map(|_| loop {
        let r = gen_rx(rng, 2);
        if !r.nullable() { break r; }
    }).collect();
    let rules: Vec<Ex> = (0..n_rules).map(|i| { let back = rng.chance(1, 2); gen_body(rng, i, n_rules, n_terms, back, 1) }).collect();
    let ignore = if rng.chance(1, 5) { Some(Rx::Rep(Box::new(Rx::Class(vec![(' ', ' ')], false)), 1, None)) } else { None };
    LarkG { rules, terms, ignore }
}
