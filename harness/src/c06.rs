//! C06 — output generated under a JSON-schema constraint always validates.
//!
//! For every schema that compiles, complete outputs are sampled through the masks (random walks
//! with a closing bias, single-byte and synthetic multi-byte vocabularies; every accepting state
//! on the way yields an output).  Each output must be well-formed JSON (strict RFC 8259 parser of
//! the harness and serde_json must both read it) and must validate against the schema under the
//! Lean validator S5 (exact decimals).  Repeated keys are tolerated only for keys that no
//! `properties` entry names (documented departure).
use serde_json::{json, Value};

use crate::c07;
use crate::eng::World;
use crate::engine::Gram;
use crate::js::{self, JV};
use crate::model::ModelBatch;
use crate::report::Report;
use crate::rng::Rng;
use crate::vocab;
use crate::Ctx;

fn extra_schema(rng: &mut Rng) -> Value {
    match rng.below(11) {
        8 => json!({"type":"object","properties":{"a":{"type":"integer"},"b":false}}),
        9 => json!({"type":"object","properties":{"n":{"type":"integer","minimum":5,"maximum":3},"m":{"type":"integer"}},"additionalProperties":{"type":"integer"}}),
        10 => json!({"type":"object","properties":{"id":{"type":"string","maxLength":2},"legacy":false},"required":["id"]}),
        0 => json!({"allOf":[{"type":"integer","minimum":-5},{"type":"integer","maximum":40,"multipleOf":4}]}),
        1 => json!({"allOf":[{"type":"string","minLength":2},{"type":"string","maxLength":4}]}),
        2 => json!({"oneOf":[{"type":"integer","minimum":0},{"type":"string","maxLength":2},{"type":"null"}]}),
        3 => json!({"type":"object","properties":{"a":{"type":"integer"},"b":{"type":"boolean"}},"minProperties":1,"additionalProperties":false}),
        4 => json!({"type":"object","additionalProperties":{"type":"integer","minimum":0,"maximum":9},"maxProperties":2}),
        5 => { let lo = rng.range(-30, 30); let m = ["0.5", "0.25", "1.5", "0.1", "3", "7"][rng.below(6)]; serde_json::from_str(&format!("{{\"type\":\"number\",\"minimum\":{lo},\"maximum\":{},\"multipleOf\":{m}}}", lo + 1 + rng.range(0, 20))).unwrap() }
        6 => { let a = rng.range(-20, 20) as f64 / 4.0; serde_json::from_str(&format!("{{\"type\":\"number\",\"exclusiveMinimum\":{a},\"exclusiveMaximum\":{}}}", a + 0.25 * (1 + rng.below(9)) as f64)).unwrap() }
        _ => json!({"type":"array","items":{"type":["integer","null"]},"prefixItems":[{"const":"head"}],"minItems":1,"maxItems":3}),
    }
}

/// schema documents without objects and references, for the tie of the IR model M7 (`Schema::intersect`)
fn gen_ir_schema(rng: &mut Rng, depth: usize) -> Value { let k = if rng.chance(1, 5) { 12 } else { rng.below(if depth > 1 { 7 } else { 12 }) }; gen_ir_kind(rng, depth, k) }

fn gen_ir_kind(rng: &mut Rng, depth: usize, kind: usize) -> Value {
    let dec = |rng: &mut Rng| -> Value { let s = [0usize, 0, 1, 2][rng.below(4)]; let v = rng.range(-40, 40); serde_json::from_str(&if s == 0 { format!("{v}") } else { format!("{}", v as f64 / 10f64.powi(s as i32)) }).unwrap() };
    match kind {
        0 | 1 => {
            let mut m = serde_json::Map::new();
            if rng.chance(5, 6) { m.insert("type".into(), json!(if rng.chance(1, 2) { "integer" } else { "number" })); }
            for k in ["minimum", "maximum", "exclusiveMinimum", "exclusiveMaximum"] { if rng.chance(1, 3) { m.insert(k.into(), dec(rng)); } }
            if rng.chance(1, 2) { m.insert("multipleOf".into(), serde_json::from_str(["1", "2", "3", "5", "0.5", "0.25", "0.1", "1.5", "7", "0.01", "12", "0.75", "0.000000001", "65537", "0.00001"][rng.below(15)]).unwrap()); }
            if m.is_empty() { m.insert("type".into(), json!("number")); }
            Value::Object(m)
        }
        2 => { let mut v = json!({"type":"string"}); if rng.chance(1, 2) { v["minLength"] = json!(rng.below(4)); } if rng.chance(1, 2) { v["maxLength"] = json!(1 + rng.below(6)); } v }
        3 => [json!({"const":{"a":1,"b":"x"}}), json!({"enum":[{"a":1},{"a":2,"c":null}]}), json!({"const":"ab"}), json!({"const":"cd"}), json!({"enum":["ab","x",""]}), json!({"const":5}), json!({"const":2.5}), json!({"enum":[1,2,"ab",null,true]}), json!({"const":[1,"a"]}), json!({"const":null})][rng.below(10)].clone(),
        4 => [json!({"type":"boolean"}), json!({"const":true}), json!({"const":false}), json!({"type":"null"}), json!({"enum":[true,null]})][rng.below(5)].clone(),
        5 => [json!({}), json!(true), json!(false), json!({"type":["integer","string"]}), json!({"type":["number","null","boolean"]}), json!({"type":["array","string"]})][rng.below(6)].clone(),
        6 => { let mut v = json!({"type":"array"}); if rng.chance(2, 3) { v["items"] = gen_ir_schema(rng, depth + 1); } if rng.chance(1, 2) { v["prefixItems"] = Value::Array((0..1 + rng.below(2)).map(|_| gen_ir_schema(rng, depth + 2)).collect()); } if rng.chance(1, 2) { v["minItems"] = json!(rng.below(3)); } if rng.chance(1, 2) { v["maxItems"] = json!(1 + rng.below(4)); } v }
        12 => {
            // objects: named properties from a small pool (so that the two operands share some), additionalProperties
            // absent / false / a schema, required names (also ones that are not listed), property counts
            let pool = ["a", "b", "c", "dd"];
            let mut props = serde_json::Map::new();
            for k in pool { if rng.chance(1, 2) { props.insert(k.to_string(), gen_ir_schema(rng, depth + 2)); } }
            let mut v = json!({"type":"object","properties":props});
            match rng.below(4) { 0 => { v["additionalProperties"] = json!(false); } 1 => { v["additionalProperties"] = gen_ir_schema(rng, depth + 2); } _ => {} }
            let req: Vec<&str> = pool.iter().copied().chain(["zz"]).filter(|_| rng.chance(1, 4)).collect();
            if !req.is_empty() { v["required"] = json!(req); }
            if rng.chance(1, 4) { v["minProperties"] = json!(rng.below(3)); }
            if rng.chance(1, 3) { v["maxProperties"] = json!(rng.below(4)); }
            v
        }
        7 | 8 => json!({"anyOf": (0..2 + rng.below(2)).map(|_| gen_ir_schema(rng, depth + 1)).collect::<Vec<_>>()}),
        9 => json!({"oneOf": (0..2 + rng.below(2)).map(|_| gen_ir_schema(rng, depth + 1)).collect::<Vec<_>>()}),
        10 => json!({"allOf": (0..2).map(|_| gen_ir_schema(rng, depth + 1)).collect::<Vec<_>>()}),
        _ => { let mut v = gen_ir_schema(rng, depth + 1); if let Some(o) = v.as_object_mut() { o.insert("anyOf".into(), json!([gen_ir_schema(rng, depth + 2), gen_ir_schema(rng, depth + 2)])); } v }
    }
}

/// impl-vs-model: the IR of two schema documents and of their intersection (hook `verif_intersect`) against
/// `Sch.intersect` of the Lean model M7, whose result is proved to mean the conjunction (c06_intersect_sat)
pub fn run_isect(case: &Value, tag: usize, rep: &mut Report, mb: &mut ModelBatch) {
    let mut rng = Rng::new(case["seed"].as_u64().unwrap_or(1));
    for pair_idx in 0..case["pairs"].as_u64().unwrap_or(20) {
        // the second operand is of the first one's kind two times out of three (otherwise most intersections are empty)
        let ka = if rng.chance(1, 3) { 12 } else { rng.below(12) };
        let mut a = gen_ir_kind(&mut rng, 0, ka);
        let kb = if ka == 12 { 12 } else if ka >= 7 { rng.below(12) } else { ka };
        let mut b = if rng.chance(2, 3) { gen_ir_kind(&mut rng, 0, kb) } else { gen_ir_schema(&mut rng, 0) };
        if pair_idx < 8 {
            // directed: tuples of different lengths whose `items` differ, in both orders - each side must be padded
            // with its *own* items before the positions are intersected
            let simple = [json!({"type":"string"}), json!({"type":"integer"}), json!({"type":"boolean"}), json!({"type":"null"})];
            let n_long = 2 + rng.below(2);
            let pre: Vec<Value> = (0..n_long).map(|_| rng.pick(&simple).clone()).collect();
            let long = json!({"type":"array","prefixItems": pre,"items": rng.pick(&simple).clone()});
            let short = match rng.below(3) { 0 => json!({"type":"array","maxItems":4}), 1 => json!({"type":"array","prefixItems":[rng.pick(&simple).clone()],"minItems":1}), _ => json!({"type":"array","prefixItems":[rng.pick(&simple).clone()],"items": rng.pick(&simple).clone()}) };
            if pair_idx % 2 == 0 { a = long; b = short; } else { a = short; b = long; }
            rep.count("isect.directed-tuples");
        }
        rep.evaluations += 1;
        match llguidance::verif::verif_intersect(&a, &b) {
            Ok((da, db, dr)) => {
                if [&da, &db].iter().any(|d| d.contains("(object)") || d.contains("(ref)")) { rep.skip("isect-object-or-ref"); continue; }
                match dr {
                    Ok(dr) => {
                        if dr.contains("(object)") || dr.contains("(ref)") { rep.skip("isect-object-or-ref"); continue; }
                        rep.count("isect.pairs");
                        if dr.contains("oneof") || da.contains("oneof") || db.contains("oneof") { rep.count("isect.with-oneof"); }
                        if dr == "unsat" { rep.count("isect.unsat"); }
                        rep.nontrivial(format!("{da}|{db}"));
                        mb.push(format!("sch isect 129 (pair {da} {db})"), format!("ok {dr}"), tag);
                    }
                    Err(msg) if msg.contains("too large to combine") || msg.contains("stack level") => {
                        // the model must refuse the same pair (checked lcm out of range / recursion budget)
                        rep.count("isect.refused");
                        rep.nontrivial(format!("{da}|{db}"));
                        mb.push(format!("sch isect 129 (pair {da} {db})"), "err".into(), tag);
                    }
                    Err(msg) => rep.skip(&format!("isect-error:{}", crate::eng::err_class(&msg).chars().take(30).collect::<String>())),
                }
            }
            Err(e) => rep.skip(&format!("isect-compile-error:{}", crate::eng::err_class(&e.to_string()).chars().take(30).collect::<String>())),
        }
    }
    rep.sample(json!({"kind": "isect", "pairs": case["pairs"]}));
}

/// patternProperties against the other operand's additionalProperties (both orders of an allOf, and sibling
/// keywords): sub-schemas and values come from a tiny fragment whose validity is computed here, so the family needs
/// no regex matching in the reference (a key matches the pattern `^p` iff it starts with `p`)
fn run_patprops(case: &Value, rep: &mut Report) {
    let mut rng = Rng::new(case["seed"].as_u64().unwrap_or(1));
    let simple = [json!({"type":"integer"}), json!({"type":"string"}), json!({"type":"boolean"}), json!(false), json!(true)];
    let sat = |s: &Value, v: &Value| -> bool {
        match s { Value::Bool(b) => *b, _ => match s["type"].as_str() { Some("integer") => v.is_i64(), Some("string") => v.is_string(), Some("boolean") => v.is_boolean(), _ => true } }
    };
    let sb = vocab::single_byte_words();
    let eos = sb.len() as u32 - 1;
    let Ok(w) = World::new(sb, eos, false, None) else { rep.skip("world"); return; };
    for _round in 0..case["rounds"].as_u64().unwrap_or(6) {
        let (sa, sp, sprop) = (rng.pick(&simple).clone(), rng.pick(&simple[..3]).clone(), rng.pick(&simple[..3]).clone());
        let prefix = ["x", "x-", "ab"][rng.below(3)];
        let pat = format!("^{prefix}");
        let shape = rng.below(4);
        // the two operands: L restricts additional properties (and may name one), R has the pattern
        let l = if shape == 3 { json!({"properties": {"id": sprop.clone()}, "additionalProperties": sa.clone()}) } else { json!({"additionalProperties": sa.clone()}) };
        let r = json!({"patternProperties": {pat.clone(): sp.clone()}});
        let schema = match shape {
            0 => json!({"type": "object", "allOf": [l, r]}),
            1 => json!({"type": "object", "allOf": [r, l]}),
            2 => { let mut o = l.clone(); o["type"] = json!("object"); o["allOf"] = json!([r]); o }
            _ => { let mut o = l.clone(); o["type"] = json!("object"); o["allOf"] = json!([r]); o }
        };
        rep.count(&format!("case.patprops.shape={shape}"));
        let g = Gram::Json(schema.clone());
        let base = w.matcher(&g);
        if base.is_error() { rep.skip(&format!("compile-error:{}", crate::eng::err_class(&base.get_error().unwrap_or_default()).chars().take(40).collect::<String>())); continue; }
        let values = [json!(1), json!("s"), json!(true)];
        let keys = [format!("{prefix}1"), format!("{prefix}note"), "other".to_string(), "id".to_string()];
        for key in &keys {
            for v in &values {
                rep.evaluations += 1;
                // Draft 2020-12: under L the key is an additional property unless L names it; under R it is constrained iff it matches
                let named_by_l = shape == 3 && key == "id";
                let ok_l = if named_by_l { sat(&sprop, v) } else { sat(&sa, v) };
                let ok_r = if key.starts_with(prefix) { sat(&sp, v) } else { true };
                let valid = ok_l && ok_r;
                let mut o = serde_json::Map::new();
                o.insert(key.clone(), v.clone());
                let text = serde_json::to_string(&Value::Object(o)).unwrap();
                let toks: Vec<u32> = text.bytes().map(|b| b as u32).collect();
                let res = crate::c07::feed(&w, &g, &toks);
                rep.count(if valid { "patprops.instances.valid" } else { "patprops.instances.invalid" });
                if res.is_ok() != valid {
                    rep.fail("oracle", if valid { "c06:patprops-valid-refused" } else { "c06:patprops-invalid-admitted" }, format!("instance {text} is {} under the schema, the engine {}", if valid { "valid" } else { "invalid" }, match &res { Ok(()) => "admits it".to_string(), Err(e) => format!("refuses it ({e})") }), json!({"schema": schema, "instance": text}));
                    return;
                }
            }
        }
        rep.nontrivial(schema.to_string());
    }
}

pub fn gen_case(rng: &mut Rng, idx: usize, thorough: bool) -> Value {
    if idx % 10 == 7 {
        return json!({"kind": "patprops", "seed": rng.next() % 1_000_000_000, "rounds": if thorough { 20 } else { 6 }});
    }
    if idx % 5 == 4 {
        return json!({"kind": "isect", "seed": rng.next() % 1_000_000_000, "pairs": if thorough { 120 } else { 40 }});
    }
    let c = c07::corpus();
    let walks = if thorough { 24 } else { 10 };
    let schema = if idx < c.len() { c[idx].clone() } else if idx % 3 == 0 { extra_schema(rng) } else { c07::gen_root(rng) };
    json!({"schema": schema, "seed": rng.next() % 1_000_000_000, "walks": walks, "vocab_kind": idx % 2})
}

fn closer_rank(w: &[u8]) -> u32 {
    if w.is_empty() { return 99; }
    match w[0] { b'"' => 0, b'}' | b']' => 1, b',' | b':' => 4, b'0'..=b'9' => 3, 0..=0x20 => 9, _ => 5 }
}

/// properties named by the schema anywhere (keys that must not repeat)
fn named_keys(s: &Value, out: &mut Vec<String>) {
    match s {
        Value::Object(o) => {
            if let Some(p) = o.get("properties").and_then(|p| p.as_object()) { for k in p.keys() { out.push(k.clone()); } }
            for v in o.values() { named_keys(v, out); }
        }
        Value::Array(a) => for v in a { named_keys(v, out); },
        _ => {}
    }
}

/// schema-directed: a key is "named" for an object only by the `properties` of the schema node that governs that
/// object (reached from the root through `properties` / `items` / `$ref`); a key named somewhere else in the
/// document is an additional property here, and repeated additional keys are not excluded by the property.
/// Nodes with combinators (anyOf / oneOf / allOf) are not descended into.
fn dup_key_directed(root: &Value, s: &Value, v: &JV, fuel: usize) -> Option<String> {
    if fuel == 0 { return None; }
    let s = match s.get("$ref").and_then(|r| r.as_str()) {
        Some(r) => { let mut cur = root; for part in r.trim_start_matches("#/").split('/') { match cur.get(part) { Some(n) => cur = n, None => return None } } cur }
        None => s,
    };
    if ["anyOf", "oneOf", "allOf"].iter().any(|k| s.get(*k).is_some()) { return None; }
    match v {
        JV::Obj(kvs) => {
            let props = s.get("properties").and_then(|p| p.as_object());
            for (i, (k, x)) in kvs.iter().enumerate() {
                let named = props.map(|p| p.contains_key(k)).unwrap_or(false);
                if named && kvs[..i].iter().any(|(k2, _)| k2 == k) { return Some(k.clone()); }
                if named { if let Some(d) = dup_key_directed(root, &props.unwrap()[k], x, fuel - 1) { return Some(d); } }
            }
            None
        }
        JV::Arr(xs) => match s.get("items") { Some(it) if it.is_object() => xs.iter().find_map(|x| dup_key_directed(root, it, x, fuel - 1)), _ => None },
        _ => None,
    }
}

#[allow(dead_code)]
fn dup_named_key(v: &JV, named: &[String]) -> Option<String> {
    match v {
        JV::Obj(kvs) => {
            for (i, (k, x)) in kvs.iter().enumerate() {
                if named.contains(k) && kvs[..i].iter().any(|(k2, _)| k2 == k) { return Some(k.clone()); }
                if let Some(d) = dup_named_key(x, named) { return Some(d); }
            }
            None
        }
        JV::Arr(xs) => xs.iter().find_map(|x| dup_named_key(x, named)),
        _ => None,
    }
}

/// variants of an instance that are likely to fall just outside a schema: named keys added with values of
/// every kind, numbers moved, strings and arrays lengthened or shortened, keys dropped
fn mutants(v: &JV, named: &[String], rng: &mut Rng, out: &mut Vec<JV>) {
    let vals = || vec![js::from_value(&json!(1)), JV::Null, JV::Str("x".into()), JV::Bool(true), JV::Obj(vec![]), JV::Arr(vec![]), js::from_value(&json!(4)), js::from_value(&json!(-3))];
    match v {
        JV::Obj(kvs) => {
            for k in named.iter().take(6) {
                if kvs.iter().any(|(k2, _)| k2 == k) { continue; }
                for x in vals() {
                    let mut n = kvs.clone();
                    if rng.chance(1, 2) { n.push((k.clone(), x)); } else { n.insert(0, (k.clone(), x)); }
                    out.push(JV::Obj(n));
                }
            }
            for i in 0..kvs.len() {
                let mut n = kvs.clone(); n.remove(i); out.push(JV::Obj(n));
                let mut sub = vec![];
                mutants(&kvs[i].1, named, rng, &mut sub);
                for m in sub.into_iter().take(12) { let mut n = kvs.clone(); n[i].1 = m; out.push(JV::Obj(n)); }
                for x in vals().into_iter().take(5) { let mut n = kvs.clone(); n[i].1 = x; out.push(JV::Obj(n)); }
            }
        }
        JV::Arr(xs) => {
            if let Some(l) = xs.last() { let mut n = xs.clone(); n.push(l.clone()); out.push(JV::Arr(n.clone())); n.push(l.clone()); out.push(JV::Arr(n)); }
            if !xs.is_empty() { out.push(JV::Arr(xs[1..].to_vec())); out.push(JV::Arr(xs[..xs.len() - 1].to_vec())); }
            for x in vals().into_iter().take(4) { let mut n = xs.clone(); n.push(x); out.push(JV::Arr(n)); }
            for i in 0..xs.len().min(3) {
                let mut sub = vec![];
                mutants(&xs[i], named, rng, &mut sub);
                for m in sub.into_iter().take(8) { let mut n = xs.clone(); n[i] = m; out.push(JV::Arr(n)); }
            }
        }
        JV::Str(t) => {
            out.push(JV::Str(format!("{t}a"))); out.push(JV::Str(format!("{t}abcdefgh")));
            if !t.is_empty() { out.push(JV::Str(t.chars().skip(1).collect())); }
            out.push(JV::Str(String::new()));
            out.push(JV::Null); out.push(js::from_value(&json!(1)));
        }
        JV::Num { .. } => {
            let txt = js::serialize(v, 0);
            if let Ok(x) = txt.parse::<f64>() {
                for d in [1.0, -1.0, 0.5, -0.5, 0.25, 10.0, -10.0, 0.1] {
                    let y = x + d;
                    let t = if y.fract() == 0.0 && y.abs() < 1e15 { format!("{}", y as i64) } else { format!("{y}") };
                    if !t.contains('e') { if let Ok(n) = js::parse(t.as_bytes()) { out.push(n); } }
                }
                if let Ok(n) = js::parse(format!("{txt}0").as_bytes()) { out.push(n); }
            }
            out.push(JV::Str("1".into())); out.push(JV::Null);
        }
        JV::Bool(b) => { out.push(JV::Bool(!b)); out.push(JV::Null); out.push(js::from_value(&json!(0))); }
        JV::Null => { out.push(JV::Bool(false)); out.push(js::from_value(&json!(0))); out.push(JV::Str(String::new())); }
    }
}

/// the contrapositive, directed: instances the Lean validator S5 refuses must not be producible — fed
/// byte by byte, the engine must refuse a byte or end in a non-accepting state
fn directed_negatives(ctx: &Ctx, schema: &Value, g: &Gram, named: &[String], rng: &mut Rng, rep: &mut Report, tag: usize, budget: usize, mb: &mut ModelBatch) {
    let sb = vocab::single_byte_words();
    let eos = sb.len() as u32 - 1;
    let Ok(w1) = World::new(sb, eos, false, None) else { return; };
    let mut cands: Vec<JV> = vec![];
    let mut seeds: Vec<JV> = vec![];
    for _ in 0..6 { let v = js::gen_instance(rng, schema, schema, 0); if !seeds.contains(&v) { seeds.push(v); } }
    for sd in &seeds {
        let mut m = vec![];
        mutants(sd, named, rng, &mut m);
        for x in m { if !cands.contains(&x) && js::max_abs_exp(&x) <= 400 { cands.push(x); } }
        if !cands.contains(sd) { cands.push(sd.clone()); }
    }
    // keep a seeded sample within the budget
    while cands.len() > budget { let k = rng.below(cands.len()); cands.swap_remove(k); }
    let mut reqs = vec![format!("json schema {tag} {}", js::to_sexp(&js::from_value(schema)))];
    for c in &cands { reqs.push(format!("json v {tag} {}", js::to_sexp(c))); }
    let Ok(resp) = ModelBatch::run_raw(&ctx.model_exe, &reqs) else { rep.fail("model", "c06:model-driver", "model driver failed".into(), json!({"schema": schema})); return; };
    if resp[0] != "ok" { return; }
    // the IR the code builds for this document must mean what S5 says, on every candidate (valid or not)
    if let Ok((da, _, _)) = llguidance::verif::verif_intersect(schema, &json!(true)) {
        if !da.contains("(object)") && !da.contains("(ref)") && !da.contains("(atom ") {
            for (c, r) in cands.iter().zip(resp.iter().skip(1)) {
                if r == "0" || r == "1" { mb.push(format!("sch sat (pair {da} {})", js::to_sexp(c)), r.clone(), tag); rep.count("ir-meaning.pairs"); }
            }
        }
    }
    for (c, r) in cands.iter().zip(resp.iter().skip(1)) {
        if r.as_str() != "0" { rep.count("directed.valid-or-undecided"); continue; }
        rep.count("directed.invalid-candidates");
        let text = js::serialize(c, 0);
        let toks: Vec<u32> = text.as_bytes().iter().map(|b| *b as u32).collect();
        if c07::feed(&w1, g, &toks).is_ok() {
            rep.fail("spec", "c06:invalid-instance-producible", format!("the engine admits {text:?} token by token and ends accepting, but the instance does not validate (Lean validator S5)"), json!({"schema": schema, "output": text}));
            return;
        }
    }
}

pub fn run_case(ctx: &Ctx, case: &Value, tag: usize, rep: &mut Report, mb: &mut ModelBatch) {
    if case["kind"] == "isect" { run_isect(case, tag, rep, mb); return; }
    if case["kind"] == "patprops" { run_patprops(case, rep); return; }
    let schema = &case["schema"];
    let mut rng = Rng::new(case["seed"].as_u64().unwrap_or(1));
    let g = Gram::Json(schema.clone());
    let texts: Vec<Vec<u8>> = vec![b"{\"a\":12.5,\"b1\":[true,null,\"xy\"],\"k\":\"v1\"}".to_vec(), b"[\"head\",10,100]".to_vec()];
    let (words, eos) = if case["vocab_kind"].as_u64() == Some(0) { let w = vocab::single_byte_words(); let e = w.len() as u32 - 1; (w, e) } else { vocab::synth_words(&mut rng, &texts, 50, None) };
    let Ok(w) = World::new(words, eos, false, None) else { rep.skip("world"); return; };
    let base = w.matcher(&g);
    if base.is_error() {
        rep.skip(&format!("compile-error:{}", crate::eng::err_class(&base.get_error().unwrap_or_default()).chars().take(40).collect::<String>()));
        return;
    }
    rep.evaluations += 1;
    let mut named = vec![];
    named_keys(schema, &mut named);
    let mut outputs: Vec<Vec<u8>> = vec![];
    for _ in 0..case["walks"].as_u64().unwrap_or(10) {
        let mut m = base.deep_clone();
        let mut bytes: Vec<u8> = vec![];
        let free = 2 + rng.below(25);
        for step in 0..120 {
            if m.is_stopped() { break; }
            if m.is_accepting().unwrap_or(false) && !outputs.contains(&bytes) { outputs.push(bytes.clone()); }
            let Ok(mask) = m.compute_mask() else { break };
            let mut allowed: Vec<u32> = mask.to_list().into_iter().filter(|t| *t != w.eos && !w.is_special(*t)).collect();
            if allowed.is_empty() { break; }
            let t = if step < free { allowed[rng.below(allowed.len())] } else {
                // closing bias: prefer quotes and brackets, then separators and digits
                allowed.sort_by_key(|t| closer_rank(&w.words[*t as usize]));
                let k = allowed.iter().take_while(|t| closer_rank(&w.words[**t as usize]) == closer_rank(&w.words[allowed[0] as usize])).count();
                allowed[rng.below(k)]
            };
            if m.consume_token(t).is_err() { break; }
            bytes.extend_from_slice(&w.words[t as usize]);
        }
        if m.is_accepting().unwrap_or(false) && !outputs.contains(&bytes) { outputs.push(bytes.clone()); }
    }
    directed_negatives(ctx, schema, &g, &named, &mut rng, rep, tag, if case["walks"].as_u64().unwrap_or(10) > 10 { 160 } else { 60 }, mb);
    rep.count_n("outputs.sampled", outputs.len() as u64);
    if outputs.is_empty() { rep.skip("no-complete-output-sampled"); return; }
    rep.nontrivial(schema.to_string());
    mb.push(format!("json schema {tag} {}", js::to_sexp(&js::from_value(schema))), "ok".into(), tag);
    for out in &outputs {
        let repro = json!({"schema": schema, "output": String::from_utf8_lossy(out), "output_hex": vocab::hex(out), "seed": case["seed"]});
        let mine = js::parse(out);
        let serde: Result<Value, _> = serde_json::from_slice(out);
        match (&mine, &serde) {
            (Ok(_), Ok(_)) => {}
            (Err(e), Err(_)) => { rep.fail("oracle", "c06:malformed-output", format!("complete output {:?} is not well-formed JSON: {e}", String::from_utf8_lossy(out)), repro); return; }
            (Err(e), Ok(_)) => { rep.count("parsers.disagree"); rep.fail("oracle", "c06:malformed-output", format!("complete output {:?} is rejected by the strict parser ({e}) though serde_json reads it", String::from_utf8_lossy(out)), repro); return; }
            (Ok(_), Err(e)) => { rep.count("parsers.disagree"); let _ = e; /* serde_json limits (number range, recursion) are not part of the property */ }
        }
        let v = mine.unwrap();
        if let Some(k) = dup_key_directed(schema, schema, &v, 64) {
            rep.fail("oracle", "c06:duplicate-named-key", format!("complete output {:?} repeats the key {k:?} that `properties` names", String::from_utf8_lossy(out)), repro);
            return;
        }
        if js::max_abs_exp(&v) > 400 { rep.count("outputs.huge-exponent-not-validated"); continue; }
        rep.count("outputs.validated");
        mb.push(format!("json v {tag} {}", js::to_sexp(&v)), "1".into(), tag);
    }
    rep.sample(json!({"schema": schema, "outputs": outputs.len(), "example": String::from_utf8_lossy(&outputs[outputs.len() - 1])}));
}
