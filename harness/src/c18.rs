//! C18 — stop, end-of-sequence and accepting status are mutually consistent.
//!
//! "stop" cases: `StopController` over random vocabularies (multi-byte characters split across
//! tokens, stop text split across tokens, overlapping candidates, special and empty tokens) and
//! random token sequences, including sequences that are not valid UTF-8.  Oracle: total output =
//! decoded text up to the first stop occurrence, chunks are valid UTF-8 when the stream is,
//! nothing after stop, no panic.  Model: Lean M9 chunk by chunk.
//! "api" cases: random API scripts on `Matcher` and `Constraint` incl. illegal calls; oracle: stop
//! iff (accepting and (no extension or EOS committed)), errors are sticky, after a stop nothing
//! is accepted and the mask is EOS-only or an error; for regex grammars the stopped text is
//! complete per the Lean spec S2.
use llguidance::toktrie::TokEnv;
use llguidance::{Constraint, StopController};
use serde_json::{json, Value};

use crate::c04::{rx_from_json, rx_to_json};
use crate::c11::world_of;
use crate::eng;
use crate::model::ModelBatch;
use crate::report::Report;
use crate::rng::Rng;
use crate::rx::{gen_rx, ALPHA};
use crate::utf8rx::byte_sexp;
use crate::vocab::{self, hex_or_underscore};
use crate::Ctx;

pub fn gen_case(rng: &mut Rng, idx: usize, thorough: bool) -> Value {
    if idx % 2 == 0 {
        let directed = idx % 4 == 2;
        return json!({"kind": "stop", "seed": rng.next() % 1_000_000_000, "len": if directed { idx / 4 % 4 } else if thorough { 40 } else { 24 }, "invalid_utf8": idx % 12 == 4, "directed": directed});
    }
    let steps = if thorough { 30 } else { 16 };
    if idx % 4 == 1 {
        let r = gen_rx(rng, 3);
        let mut texts = vec![];
        for _ in 0..5 {
            let mut s = String::new();
            r.sample(rng, ALPHA, &mut s);
            texts.push(vocab::hex(s.as_bytes()));
        }
        return json!({"kind": "api", "rx": rx_to_json(&r), "grammar": {"regex": r.to_regex()}, "texts": texts, "vocab_kind": 1, "canonical": false, "seed": rng.next() % 1_000_000_000, "steps": steps});
    }
    if idx % 8 == 7 {
        // forced text that reaches the end of the grammar, canonical tokenizer: forced bytes stay pending after
        // compute_ff_bytes, and EOS is illegal until their tokens have been committed
        let fams = eng::families();
        let n = fams.len();
        let (g, t) = &fams[[n - 8, n - 7, n - 6, n - 5, n - 2, n - 1][(idx / 8) % 6]];
        return json!({"kind": "api", "grammar": g.to_json(), "texts": t.iter().map(|t| vocab::hex(t.as_bytes())).collect::<Vec<_>>(), "vocab_kind": (idx / 32) % 3, "canonical": true, "seed": rng.next() % 1_000_000_000, "steps": steps});
    }
    let (g, texts) = eng::gen_grammar(rng, idx);
    json!({"kind": "api", "grammar": g.to_json(), "texts": texts.iter().map(|t| vocab::hex(t)).collect::<Vec<_>>(), "vocab_kind": (idx + idx / 3) % 3, "canonical": (idx / 8) % 2 == 0, "two_eos": idx % 16 == 3, "seed": rng.next() % 1_000_000_000, "steps": steps})
}

pub fn run_case(ctx: &Ctx, case: &Value, tag: usize, rep: &mut Report, mb: &mut ModelBatch) {
    if case["kind"] == "stop" { run_stop(ctx, case, tag, rep, mb) } else { run_api(ctx, case, tag, rep, mb) }
}

// ------------------------------------------------------------------ stop controller

fn find_first_stop(text: &[u8], stops: &[Vec<u8>]) -> Option<(usize, usize)> {
    // earliest end position; returns (start of stop, end)
    for end in 1..=text.len() {
        for s in stops {
            if s.len() <= end && &text[end - s.len()..end] == &s[..] {
                return Some((end - s.len(), end));
            }
        }
    }
    None
}

fn run_stop(_ctx: &Ctx, case: &Value, tag: usize, rep: &mut Report, mb: &mut ModelBatch) {
    let mut rng = Rng::new(case["seed"].as_u64().unwrap());
    let len = case["len"].as_u64().unwrap() as usize;
    let allow_invalid = case["invalid_utf8"].as_bool().unwrap_or(false);
    // vocabulary: pieces of a few texts, with multi-byte characters cut apart
    let base = ["hello wörld, stop here", "日本語 テスト END now", "a🐢b🐢c STOP", "xyzzy ab abc abcd"];
    let mut words: Vec<Vec<u8>> = vec![];
    for t in base {
        let b = t.as_bytes();
        let mut i = 0;
        while i < b.len() {
            let l = 1 + rng.below(3);
            let e = (i + l).min(b.len());
            words.push(b[i..e].to_vec());
            i = e;
        }
    }
    for c in b"abcdst EN".iter() { words.push(vec![*c]); }
    words.push(vec![]);                                   // empty token
    let mut sp = vec![0xffu8]; sp.extend_from_slice(b"<|sp|>"); words.push(sp);
    let mut e = vec![0xffu8]; e.extend_from_slice(b"<|end|>"); words.push(e);
    let eos = words.len() as u32 - 1;
    let env: TokEnv = vocab::env_from_words(&words, eos, false);
    // stop set: strings such that none is a suffix of another (unambiguous "first occurrence")
    let pool = ["stop", "END", "🐢c", "ö", "ab", "語 ", "d, ", "STOP", "xy"];
    let directed = case["directed"].as_bool().unwrap_or(false);
    let mut stops: Vec<String> = vec![];
    for _ in 0..(if directed { 1 + rng.below(3) } else { rng.below(4) }) {
        let s = rng.pick(&pool).to_string();
        if !stops.iter().any(|x| x.ends_with(&s) || s.ends_with(x.as_str())) { stops.push(s); }
    }
    let stop_tokens: Vec<u32> = if directed || rng.chance(1, 3) { vec![eos] } else if rng.chance(1, 2) { vec![eos, rng.below(words.len() - 3) as u32] } else { vec![] };
    let Ok(mut sc) = StopController::new(env.clone(), stop_tokens.clone(), None, stops.clone()) else { rep.skip("stop-controller-rejected"); return; };
    let stops_b: Vec<Vec<u8>> = stops.iter().map(|s| s.as_bytes().to_vec()).collect();
    mb.push("reset".into(), "ok".into(), tag);
    mb.push(format!("stop init {} {}", if stops_b.is_empty() { "-".to_string() } else { stops_b.iter().map(|s| vocab::hex(s)).collect::<Vec<_>>().join(",") }, crate::model::show_list(&stop_tokens)), "ok".into(), tag);
    let mut registered = std::collections::HashSet::new();
    // token sequence: consecutive pieces of the base texts; in valid mode a jump to another piece
    // happens only when the text so far ends on a character boundary and the target piece starts
    // on one, so the overall stream stays valid UTF-8
    let n_pieces = words.len() - 3 - 9;
    let starts_on_boundary = |i: usize| -> bool { let w = &words[i]; !w.is_empty() && (w[0] & 0xC0) != 0x80 };
    let mut seq: Vec<u32> = vec![];
    let mut pos = rng.below(n_pieces);
    while !allow_invalid && !starts_on_boundary(pos) { pos = (pos + 1) % n_pieces; }
    let mut sofar: Vec<u8> = vec![];
    for _ in 0..len {
        let on_boundary = std::str::from_utf8(&sofar).is_ok();
        if on_boundary || allow_invalid {
            if rng.chance(1, 10) { seq.push(words.len() as u32 - 2 - rng.below(2) as u32); sofar.clear(); continue; }   // special / empty
            if rng.chance(1, 25) { seq.push(eos); continue; }
            if rng.chance(1, 8) { seq.push((n_pieces + rng.below(9)) as u32); continue; }                  // single ASCII letter
            if rng.chance(1, 6) || pos >= n_pieces {
                pos = rng.below(n_pieces);
                while !allow_invalid && !starts_on_boundary(pos) { pos = (pos + 1) % n_pieces; }
            }
        }
        if pos >= n_pieces { pos = 0; if !on_boundary && !allow_invalid { break; } }
        seq.push(pos as u32);
        sofar.extend_from_slice(&words[pos]);
        if std::str::from_utf8(&sofar).is_ok() { sofar.clear(); }
        pos += 1;
    }
    // directed tail: a proper prefix of a stop string (withheld by the controller) followed by a
    // stop token, or by a special token, or by unrelated text
    if !stops.is_empty() && (directed || rng.chance(2, 3)) {
        let s = rng.pick(&stops).clone();
        let sb = s.as_bytes();
        let cut = 1 + rng.below(sb.len().max(2) - 1);
        let prefix = &sb[..cut.min(sb.len() - 1).max(1)];
        let mut ok = true;
        let mut pre_toks = vec![];
        for b in prefix {
            match words.iter().position(|w| w.len() == 1 && w[0] == *b) { Some(i) => pre_toks.push(i as u32), None => { ok = false; break; } }
        }
        if ok && std::str::from_utf8(&sofar).is_ok() {
            seq.extend(pre_toks);
            match rng.below(3) {
                0 if !stop_tokens.is_empty() => { seq.push(stop_tokens[0]); rep.count("stop.tail.prefix_then_stop_token"); }
                1 => { seq.push(words.len() as u32 - 2); rep.count("stop.tail.prefix_then_special"); }
                _ => { seq.push((n_pieces + rng.below(9)) as u32); rep.count("stop.tail.prefix_then_text"); }
            }
        }
    }
    // oracle bookkeeping: text since the last special/empty token
    let mut outputs: Vec<String> = vec![];
    let mut stopped_at: Option<usize> = None;
    for (i, &t) in seq.iter().enumerate() {
        rep.evaluations += 1;
        let out = sc.commit_token(t);
        if registered.insert(t) {
            mb.push(format!("stop tok {t} {}", hex_or_underscore(&words[t as usize])), "ok".into(), tag);
        }
        // the model returns bytes; the implementation returns a (lossily converted) String
        let out_b = out.as_bytes().to_vec();
        let lossy = out.contains('\u{FFFD}');
        if !lossy {
            mb.push(format!("stop c {t}"), format!("ok {} {}", hex_or_underscore(&out_b), sc.is_stopped() as u8), tag);
        } else {
            mb.push(format!("stop c {t}"), "ok*".to_string(), tag);
            rep.count("stop.lossy_chunk");
        }
        if stopped_at.is_some() && !out.is_empty() {
            rep.fail("oracle", "c18:output-after-stop", format!("token #{i} returned {:?} after the controller stopped", out), json!({"case": case, "seq": seq, "stops": stops}));
        }
        if sc.is_stopped() && stopped_at.is_none() { stopped_at = Some(i); }
        outputs.push(out);
    }
    // reference: decoded text (special tokens print their name, empty tokens "<[id]>") up to the first stop
    let mut expected: Vec<u8> = vec![];
    let mut since_reset: Vec<u8> = vec![];
    let mut exp_stop: Option<usize> = None;
    'outer: for (i, &t) in seq.iter().enumerate() {
        if stop_tokens.contains(&t) { exp_stop = Some(i); break; }
        let wd = &words[t as usize];
        if wd.is_empty() { expected.extend_from_slice(format!("<[{t}]>").as_bytes()); since_reset.clear(); continue; }
        if wd[0] == 0xff { expected.extend_from_slice(&wd[1..]); since_reset.clear(); continue; }
        for &b in wd {
            expected.push(b);
            since_reset.push(b);
            if let Some((st, en)) = find_first_stop(&since_reset, &stops_b) {
                if en == since_reset.len() {
                    let k = en - st;
                    let n = expected.len();
                    expected.truncate(n - k);
                    exp_stop = Some(i);
                    break 'outer;
                }
            }
        }
    }
    let total: String = outputs.concat();
    let valid_stream = std::str::from_utf8(&expected).is_ok();
    if valid_stream {
        rep.count("stop.valid_stream");
        let exp_s = String::from_utf8(expected.clone()).unwrap();
        let ok = if exp_stop.is_some() { total == exp_s } else { exp_s.starts_with(&total) && exp_s.len() - total.len() <= 12 };
        if !ok {
            rep.fail("oracle", "c18:stop-output", format!("total output {:?}, expected {:?} (stop at {:?})", total, exp_s, exp_stop), json!({"case": case, "seq": seq, "stops": stops, "stop_tokens": stop_tokens}));
        }
        if stopped_at != exp_stop {
            rep.fail("oracle", "c18:stop-position", format!("stopped at token {:?}, expected {:?}", stopped_at, exp_stop), json!({"case": case, "seq": seq, "stops": stops, "stop_tokens": stop_tokens}));
        }
        if total.contains('\u{FFFD}') {
            rep.fail("oracle", "c18:split-utf8", "a returned chunk split a UTF-8 character of a valid stream".into(), json!({"case": case, "seq": seq, "stops": stops}));
        }
    } else {
        rep.count("stop.invalid_stream");
    }
    rep.nontrivial(format!("stop|{:?}|{:?}|{:?}", stops, stop_tokens, &seq[..seq.len().min(12)]));
    rep.sample(json!({"kind": "stop", "stops": stops, "stop_tokens": stop_tokens, "seq_len": seq.len(), "stopped_at": stopped_at, "valid_stream": valid_stream}));
}

// ------------------------------------------------------------------ API scripts

fn run_api(_ctx: &Ctx, case: &Value, tag: usize, rep: &mut Report, mb: &mut ModelBatch) {
    let mut rng = Rng::new(case["seed"].as_u64().unwrap());
    let Some((g, mut w)) = world_of(case, &mut rng) else { rep.skip("world"); return; };
    // a vocabulary with two end-of-sequence tokens: the special token before the primary EOS is one as well
    let two_eos = case["two_eos"].as_bool().unwrap_or(false) && w.eos >= 1 && w.words[w.eos as usize - 1].first() == Some(&0xff);
    if two_eos {
        let canonical = case["canonical"].as_bool().unwrap_or(false);
        match eng::World::new_multi_eos(w.words.clone(), vec![w.eos, w.eos - 1], canonical, None) { Ok(w2) => w = w2, Err(_) => { rep.skip("world"); return; } }
    }
    rep.count(&format!("case.two_eos={two_eos}"));
    let steps = case["steps"].as_u64().unwrap() as usize;
    let mut m = w.matcher(&g);
    if m.is_error() { rep.skip("grammar-rejected"); return; }
    let has_model = case.get("rx").is_some();
    if has_model {
        let r = rx_from_json(&case["rx"]);
        mb.push("reset".into(), "ok".into(), tag);
        mb.push_guard(format!("rx def {tag} {}", byte_sexp(&r)), "ok*".into(), tag);
    }
    let vocab_n = w.vocab_size() as u32;
    let mut toks: Vec<u32> = vec![];
    let mut bytes: Vec<u8> = vec![];
    let mut script: Vec<String> = vec![];
    // ---- Matcher interface
    for step in 0..steps {
        rep.evaluations += 1;
        let repro = json!({"case": case, "tokens": toks, "script": script});
        if m.is_error() {
            // permanently failed: everything keeps failing
            if m.consume_token(0).is_ok() || m.compute_mask().is_ok() || m.rollback(1).is_ok() || !m.is_stopped() {
                rep.fail("oracle", "c18:error-not-sticky", format!("step {step}: a failed matcher answered a call successfully"), repro);
            }
            break;
        }
        if m.is_stopped() {
            // after a stop: no token accepted, mask is an error or EOS-only
            let reason = format!("{:?}", m.stop_reason());
            let mut c = m.deep_clone();
            match c.compute_mask_or_eos() {
                Ok(v) => {
                    let l = v.to_list();
                    if l.iter().any(|t| !w.is_eos(*t)) {
                        rep.fail("oracle", "c18:mask-after-stop", format!("step {step}: mask after stop ({reason}) contains non-EOS tokens {l:?}"), repro.clone());
                    }
                }
                Err(_) => {}
            }
            let mut c = m.deep_clone();
            if c.compute_mask().is_ok() {
                rep.fail("oracle", "c18:compute-mask-after-stop", format!("step {step}: compute_mask succeeded after stop ({reason})"), repro.clone());
            }
            let mut c = m.deep_clone();
            let t = rng.below(vocab_n as usize) as u32;
            if c.consume_token(t).is_ok() {
                rep.fail("oracle", "c18:token-accepted-after-stop", format!("step {step}: token {t} accepted after stop ({reason})"), repro.clone());
            }
            if reason == "NoExtension" || reason == "EndOfSentence" {
                rep.count(&format!("api.stop.{reason}"));
                if has_model {
                    mb.push(format!("rx qs {tag} {}", hex_or_underscore(&bytes)), "ok 1?".into(), tag);
                }
            } else {
                rep.count(&format!("api.stop.other.{reason}"));
            }
            break;
        }
        let Ok(mask) = eng::mask_of(&mut m) else {
            // a stop discovered at mask time (NoExtensionBias) must not be accepting (C03 judges the rest)
            break;
        };
        // illegal at every state where EOS is not offered: committing EOS must fail (also while
        // grammar-forced text is pending with a canonical tokenizer)
        if mask.binary_search(&w.eos).is_err() {
            let mut c = m.deep_clone();
            if step % 2 == 0 { let _ = c.compute_ff_bytes(); }
            let e = w.eos_all[step % w.eos_all.len()];
            if c.consume_token(e).is_ok() {
                rep.fail("oracle", "c18:eos-accepted-outside-mask", format!("step {step}: EOS is not in the mask (accepting={:?}) but committing it succeeded; stopped after={}", m.deep_clone().is_accepting(), c.is_stopped()), repro.clone());
                break;
            }
            rep.count("api.illegal.eos_outside_mask");
        }
        // batches: try_consume_tokens must behave like feeding the same tokens one call at a time (count, stop status
        // and reason, accepting flag, next mask), also when a token in the middle is refused or the grammar completes
        if rng.chance(1, 4) {
            let mut sim = m.deep_clone();
            let mut batch: Vec<u32> = vec![];
            for _ in 0..1 + rng.below(4) {
                if sim.is_stopped() { break; }
                let Ok(al) = eng::mask_of(&mut sim) else { break };
                if al.is_empty() { break; }
                let t = if al.binary_search(&w.eos).is_ok() && rng.chance(1, 3) { w.eos } else { *rng.pick(&al) };
                if sim.consume_token(t).is_err() { break; }
                batch.push(t);
            }
            // extra tokens after the simulated ones: arbitrary ids (usually refused, also after a stop)
            for _ in 0..rng.below(3) { batch.push(rng.below(vocab_n as usize) as u32); }
            if rng.chance(1, 3) && !batch.is_empty() { let k = rng.below(batch.len()); batch.insert(k, rng.below(vocab_n as usize) as u32); }
            let mut a = m.deep_clone();
            let mut b = m.deep_clone();
            let ra = a.try_consume_tokens(&batch);
            let mut nb = 0usize;
            let mut b_err = false;
            for &t in &batch {
                if b.is_stopped() || b.is_error() { break; }
                match b.validate_tokens(&[t]) { Ok(1) => {} Ok(_) => break, Err(_) => { b_err = true; break; } }
                if b.consume_token(t).is_err() { b_err = true; break; }
                nb += 1;
            }
            rep.count("api.batch");
            match ra {
                Ok(na) if !b_err => {
                    let oa = (na, a.is_stopped(), format!("{:?}", a.stop_reason()), a.is_error(), a.is_accepting().ok(), eng::mask_of(&mut a).ok());
                    let ob = (nb, b.is_stopped(), format!("{:?}", b.stop_reason()), b.is_error(), b.is_accepting().ok(), eng::mask_of(&mut b).ok());
                    if oa != ob {
                        rep.fail("oracle", "c18:batch-differs-from-single-commits", format!("step {step}: try_consume_tokens({batch:?}) -> consumed {} stopped {} reason {} accepting {:?}; one at a time -> consumed {} stopped {} reason {} accepting {:?}{}", oa.0, oa.1, oa.2, oa.4, ob.0, ob.1, ob.2, ob.4, if oa.5 != ob.5 { "; next masks differ" } else { "" }), repro.clone());
                        break;
                    }
                }
                _ => rep.count("api.batch.error"),
            }
        }
        // expected stop decision for the next commit, computed on a low-level clone
        let r = rng.below(12);
        // while grammar-forced text is emitted through a canonical tokenizer the mask narrows to the single canonical
        // token although other tokenisations of the forced bytes are accepted (C01's documented exception): tokens
        // outside such a mask are not illegal calls
        let narrowed = case["canonical"].as_bool().unwrap_or(false) && mask.len() == 1;
        if r == 0 && !narrowed {
            // illegal: token not in the mask
            let bad: Vec<u32> = (0..vocab_n).filter(|t| mask.binary_search(t).is_err()).collect();
            if let Some(&t) = bad.first() {
                let t = if bad.len() > 1 { *rng.pick(&bad) } else { t };
                script.push(format!("bad{t}"));
                let mut c = m.deep_clone();
                if c.consume_token(t).is_ok() {
                    rep.fail("oracle", "c18:token-outside-mask-accepted", format!("step {step}: token {t} outside the mask accepted"), repro.clone());
                } else if !c.is_error() && !c.is_stopped() {
                    // documented: state usable or permanently failed; if usable it must be unchanged
                    if eng::mask_of(&mut c).ok() != Some(mask.clone()) {
                        rep.fail("oracle", "c18:state-changed-by-rejected-token", format!("step {step}: rejected token {t} changed the mask"), repro.clone());
                    }
                }
                rep.count("api.illegal.outside_mask");
            }
            continue;
        }
        if r == 1 {
            let t = vocab_n + rng.below(5) as u32;
            script.push(format!("oob{t}"));
            let mut c = m.deep_clone();
            if c.consume_token(t).is_ok() || c.validate_tokens(&[t]).is_ok() && !c.is_error() {
                rep.fail("oracle", "c18:out-of-range-token", format!("step {step}: token id {t} >= vocab {vocab_n} not rejected"), repro.clone());
            }
            rep.count("api.illegal.out_of_range");
            continue;
        }
        if mask.is_empty() { break; }
        let non_eos: Vec<u32> = mask.iter().copied().filter(|t| !w.is_eos(*t)).collect();
        let eos_in_mask: Vec<u32> = mask.iter().copied().filter(|t| w.is_eos(*t)).collect();
        if w.eos_all.len() > 1 && !eos_in_mask.is_empty() && eos_in_mask.len() != w.eos_all.len() {
            rep.fail("oracle", "c18:eos-tokens-not-all-offered", format!("step {step}: of the end-of-sequence tokens {:?} only {eos_in_mask:?} are in the mask", w.eos_all), repro.clone());
            break;
        }
        // with several EOS tokens, end through a secondary one half of the time it is offered
        let t = if eos_in_mask.len() > 1 && rng.chance(1, 2) { *eos_in_mask.iter().find(|t| **t != w.eos).unwrap() } else if !non_eos.is_empty() && rng.chance(5, 6) { *rng.pick(&non_eos) } else { *rng.pick(&mask) };
        // oracle for the stop decision: accepting-after ∧ (no extension ∨ EOS)
        let mut probe = m.deep_clone();
        let acc_before = probe.is_accepting().unwrap_or(false);
        script.push(format!("c{t}"));
        if m.consume_token(t).is_err() {
            rep.fail("oracle", "c18:masked-token-rejected", format!("step {step}: token {t} from the mask rejected"), repro.clone());
            break;
        }
        toks.push(t);
        if !w.is_eos(t) { bytes.extend_from_slice(&w.words[t as usize]); }
        if w.is_eos(t) {
            if t != w.eos { rep.count("api.commits.secondary_eos"); }
            if !acc_before || !m.is_stopped() {
                rep.fail("oracle", "c18:eos-stop", format!("step {step}: EOS committed: accepting before={acc_before}, stopped after={}", m.is_stopped()), repro.clone());
            }
        } else if m.is_stopped() && !m.is_error() {
            // stop without EOS: the text must be complete and not extensible
            let mut f = w.replay(&g, &toks[..toks.len() - 1]);
            // replay the last token on a TokenParser-level clone is not possible through Matcher; use rollback
            let _ = &mut f;
            let mut back = m.deep_clone();
            if back.rollback(1).is_ok() && back.consume_token(t).is_ok() {
                // same decision when replayed
                if !back.is_stopped() {
                    rep.fail("oracle", "c18:stop-not-deterministic", format!("step {step}: stop decision differs after rollback+replay"), repro.clone());
                }
            }
        } else if !m.is_stopped() {
            // not stopped: either not accepting or some non-EOS extension exists
            let mut c = m.deep_clone();
            let acc = c.is_accepting().unwrap_or(false);
            let ext = eng::mask_of(&mut c).map(|v| v.iter().any(|x| !w.is_eos(*x))).unwrap_or(false);
            if acc && !ext {
                rep.fail("oracle", "c18:missed-stop", format!("step {step}: accepting with no extension but not stopped"), repro.clone());
            }
        }
        rep.nontrivial(format!("api|{}|{:?}", case["grammar"], toks));
    }
    // ---- Constraint (sampling loop) on the same grammar
    if let Ok(tp) = w.fac.create_parser(g.top()) {
        let mut c = Constraint::new(tp);
        let mut ctoks: Vec<u32> = vec![];
        // commit before any mask is an error, not a panic
        let mut c0 = c.clone();
        if let Ok(r) = c0.commit_token(Some(0)) {
            if !r.stop && r.ff_tokens.is_empty() {
                // tolerated only if the state is unchanged: a later mask must still work
            }
        }
        for step in 0..steps {
            rep.evaluations += 1;
            let repro = json!({"case": case, "constraint_tokens": ctoks});
            let res = match c.compute_mask() { Ok(r) => r.clone(), Err(_) => break };
            if res.is_stop() {
                rep.count("constraint.stop");
                // stop is latched: further masks are errors, commit keeps reporting stop
                if c.compute_mask().is_ok() {
                    rep.fail("oracle", "c18:constraint-mask-after-stop", format!("step {step}: compute_mask after stop succeeded"), repro.clone());
                }
                match c.commit_token(None) {
                    Ok(r) if r.stop => {}
                    Ok(_) => rep.fail("oracle", "c18:constraint-commit-after-stop", format!("step {step}: commit after stop did not report stop"), repro.clone()),
                    Err(_) => {}
                }
                // the matcher fed with the same tokens must agree that generation may stop here
                let mut mm = w.replay(&g, &ctoks);
                let acc = mm.is_stopped() || mm.is_accepting().unwrap_or(false);
                if !acc {
                    rep.fail("oracle", "c18:constraint-stop-not-accepting", format!("step {step}: Constraint reported stop in a state the Matcher does not accept"), repro.clone());
                }
                break;
            }
            let Some(mask) = res.sample_mask.as_ref().map(|m| m.to_list()) else { break };
            if mask.is_empty() { break; }
            let t = *rng.pick(&mask);
            match c.commit_token(Some(t)) {
                Ok(r) => {
                    if r.backtrack != 0 { rep.fail("oracle", "c18:constraint-backtrack", "backtrack without capability".into(), repro.clone()); }
                    ctoks.push(t);
                    ctoks.extend_from_slice(&r.ff_tokens[1.min(r.ff_tokens.len())..]);
                }
                Err(e) => {
                    rep.fail("oracle", "c18:constraint-masked-token-rejected", format!("step {step}: token {t} from mask rejected: {}", eng::err_class(&e.to_string())), repro.clone());
                    break;
                }
            }
        }
    }
    rep.sample(json!({"kind": "api", "grammar": case["grammar"], "script": script.iter().take(20).collect::<Vec<_>>()}));
}
