//! C08 — numeric bound keywords admit exactly the numbers inside the bounds.
//!
//! impl-vs-spec: for (minimum | exclusiveMinimum, maximum | exclusiveMaximum, multipleOf, integer?)
//! on a dense grid (all integer pairs in a window exhaustively; decimal bounds with up to three
//! fractional digits; magnitudes near powers of ten up to 10^18) every plain decimal literal in
//! and around the interval is accepted iff its exact value satisfies the keywords (exact decimal
//! arithmetic in i128); empty combinations must be rejected at compile time.
//! impl-vs-model: `rx_int_range` (through the hook) must print exactly the pattern the Lean model
//! of the digit recursion prints, and the Lean `Rx` of that pattern must agree on the literals.
use serde_json::{json, Value};

use crate::eng::World;
use crate::engine::Gram;
use crate::model::ModelBatch;
use crate::report::Report;
use crate::rng::Rng;
use crate::vocab;
use crate::Ctx;
use llguidance::Matcher;

/// exact decimal: value = mant / 10^scale
#[derive(Clone, Copy, Debug, PartialEq)]
pub struct D { pub mant: i128, pub scale: u32 }

impl D {
    pub fn parse(s: &str) -> Option<D> {
        let neg = s.starts_with('-');
        let t = s.trim_start_matches('-');
        let (ip, fp) = match t.split_once('.') { Some((a, b)) => (a, b), None => (t, "") };
        if ip.is_empty() || !ip.chars().all(|c| c.is_ascii_digit()) || !fp.chars().all(|c| c.is_ascii_digit()) { return None; }
        let digits = format!("{ip}{fp}");
        let m: i128 = digits.parse().ok()?;
        Some(D { mant: if neg { -m } else { m }, scale: fp.len() as u32 })
    }
    pub fn cmp(&self, o: &D) -> std::cmp::Ordering {
        let s = self.scale.max(o.scale);
        let a = self.mant * 10i128.pow(s - self.scale);
        let b = o.mant * 10i128.pow(s - o.scale);
        a.cmp(&b)
    }
    pub fn is_multiple_of(&self, m: &D) -> bool {
        if m.mant == 0 { return self.mant == 0; }
        let s = self.scale.max(m.scale);
        let a = self.mant * 10i128.pow(s - self.scale);
        let b = m.mant * 10i128.pow(s - m.scale);
        a % b == 0
    }
    pub fn is_integer_value(&self) -> bool { self.mant % 10i128.pow(self.scale) == 0 }
}

#[derive(Clone, Debug)]
pub struct Num {
    pub integer: bool,
    pub min: Option<(String, bool)>,
    pub max: Option<(String, bool)>,
    pub mult: Option<String>,
    /// second keyword on the same side with the other exclusivity (minimum together with exclusiveMinimum ...)
    pub min2: Option<String>,
    pub max2: Option<String>,
}

impl Num {
    pub fn schema(&self) -> Value {
        let mut m = serde_json::Map::new();
        m.insert("type".into(), json!(if self.integer { "integer" } else { "number" }));
        let num = |s: &str| -> Value { serde_json::from_str(s).unwrap() };
        if let Some((v, ex)) = &self.min { m.insert(if *ex { "exclusiveMinimum" } else { "minimum" }.into(), num(v)); }
        if let Some((v, ex)) = &self.max { m.insert(if *ex { "exclusiveMaximum" } else { "maximum" }.into(), num(v)); }
        if let (Some((_, ex)), Some(v)) = (&self.min, &self.min2) { m.insert(if *ex { "minimum" } else { "exclusiveMinimum" }.into(), num(v)); }
        if let (Some((_, ex)), Some(v)) = (&self.max, &self.max2) { m.insert(if *ex { "maximum" } else { "exclusiveMaximum" }.into(), num(v)); }
        if let Some(v) = &self.mult { m.insert("multipleOf".into(), num(v)); }
        Value::Object(m)
    }
    /// every lower / upper bound keyword present, as (value, exclusive)
    pub fn lows(&self) -> Vec<(String, bool)> {
        let mut v = vec![];
        if let Some((a, ex)) = &self.min { v.push((a.clone(), *ex)); if let Some(b) = &self.min2 { v.push((b.clone(), !*ex)); } }
        v
    }
    pub fn highs(&self) -> Vec<(String, bool)> {
        let mut v = vec![];
        if let Some((a, ex)) = &self.max { v.push((a.clone(), *ex)); if let Some(b) = &self.max2 { v.push((b.clone(), !*ex)); } }
        v
    }
    /// the binding bound of a side (largest lower / smallest upper; exclusive wins a tie)
    pub fn eff_min(&self) -> Option<(String, bool)> {
        self.lows().into_iter().max_by(|a, b| D::parse(&a.0).unwrap().cmp(&D::parse(&b.0).unwrap()).then(a.1.cmp(&b.1)))
    }
    pub fn eff_max(&self) -> Option<(String, bool)> {
        self.highs().into_iter().min_by(|a, b| D::parse(&a.0).unwrap().cmp(&D::parse(&b.0).unwrap()).then(b.1.cmp(&a.1)))
    }
    pub fn admits(&self, lit: &D) -> bool {
        for (v, ex) in self.lows() {
            let b = D::parse(&v).unwrap();
            match lit.cmp(&b) { std::cmp::Ordering::Less => return false, std::cmp::Ordering::Equal if ex => return false, _ => {} }
        }
        for (v, ex) in self.highs() {
            let b = D::parse(&v).unwrap();
            match lit.cmp(&b) { std::cmp::Ordering::Greater => return false, std::cmp::Ordering::Equal if ex => return false, _ => {} }
        }
        if let Some((v, ex)) = &None::<(String, bool)> {
            let b = D::parse(v).unwrap();
            match lit.cmp(&b) { std::cmp::Ordering::Less => return false, std::cmp::Ordering::Equal if *ex => return false, _ => {} }
        }
        if let Some((v, ex)) = &None::<(String, bool)> {
            let b = D::parse(v).unwrap();
            match lit.cmp(&b) { std::cmp::Ordering::Greater => return false, std::cmp::Ordering::Equal if *ex => return false, _ => {} }
        }
        if let Some(v) = &self.mult { if !lit.is_multiple_of(&D::parse(v).unwrap()) { return false; } }
        if self.integer && !lit.is_integer_value() { return false; }
        true
    }
}

fn accepts(base: &Matcher, s: &str) -> bool {
    let mut m = base.deep_clone();
    let toks: Vec<u32> = s.bytes().map(|b| b as u32).collect();
    match m.validate_tokens(&toks) { Ok(k) if k == toks.len() => {} _ => return false }
    if m.consume_tokens(&toks).is_err() { return false; }
    m.is_accepting().unwrap_or(false) || (m.is_stopped() && format!("{:?}", m.stop_reason()) == "NoExtension")
}

fn fmt_dec(mant: i128, scale: u32) -> String {
    // plain decimal literal with exactly `scale` fractional digits
    let neg = mant < 0;
    let a = mant.unsigned_abs();
    let p = 10u128.pow(scale);
    let ip = a / p;
    let fp = a % p;
    let mut s = if scale == 0 { format!("{ip}") } else { format!("{ip}.{:0width$}", fp, width = scale as usize) };
    if neg && (ip != 0 || fp != 0) { s = format!("-{s}"); }
    s
}

/// exact: does some number satisfy all keywords?
pub fn satisfiable(n: &Num) -> bool {
    let lo = n.eff_min().map(|(v, ex)| (D::parse(&v).unwrap(), ex));
    let hi = n.eff_max().map(|(v, ex)| (D::parse(&v).unwrap(), ex));
    // common scale
    let mut sc = 0u32;
    for d in [lo.map(|x| x.0), hi.map(|x| x.0), n.mult.as_ref().map(|m| D::parse(m).unwrap())].into_iter().flatten() { sc = sc.max(d.scale); }
    let up = |d: D| d.mant * 10i128.pow(sc - d.scale);
    let unit = 10i128.pow(sc);
    // step: values must be multiples of `step` (in units of 10^-sc); for integers also of `unit`
    let m = n.mult.as_ref().map(|m| up(D::parse(m).unwrap()));
    if m == Some(0) { return false; }
    let step = match (m, n.integer) {
        (Some(m), true) => { let g = gcd(m, unit); m / g * unit }
        (Some(m), false) => m,
        (None, true) => unit,
        (None, false) => 0, // dense
    };
    match (lo, hi) {
        (Some((l, lex)), Some((h, hex))) => {
            let (l, h) = (up(l), up(h));
            if step == 0 { return l < h || (l == h && !lex && !hex); }
            // smallest multiple of step >= l (or > l)
            let mut k = l.div_euclid(step) * step;
            if k < l || (k == l && lex) { k += step; }
            k < h || (k == h && !hex)
        }
        _ => true,
    }
}

fn gcd(a: i128, b: i128) -> i128 { if b == 0 { a.abs() } else { gcd(b, a % b) } }

/// literals in and around the bounds: 0..=4 fractional digits, trailing zeros, shorter forms
fn literals(n: &Num, rng: &mut Rng) -> Vec<String> {
    let mut pts: Vec<D> = vec![D { mant: 0, scale: 0 }];
    for b in n.lows().iter().chain(n.highs().iter()) { pts.push(D::parse(&b.0).unwrap()); }
    let mut out: Vec<String> = vec![];
    for p in pts.clone() {
        for scale in 0..=4u32 {
            if scale < p.scale {
                // truncations of the bound (shorter forms) and neighbours at that precision
                let t = p.mant / 10i128.pow(p.scale - scale);
                for d in -2..=2 { out.push(fmt_dec(t + d, scale)); }
            } else {
                let t = p.mant * 10i128.pow(scale - p.scale);
                for d in [-11, -10, -2, -1, 0, 1, 2, 10, 11] { out.push(fmt_dec(t + d, scale)); }
            }
        }
    }
    // integers across the interval and a few random points inside
    let (lo, hi) = match (&n.eff_min(), &n.eff_max()) {
        (Some(a), Some(b)) => (D::parse(&a.0).unwrap(), D::parse(&b.0).unwrap()),
        (Some(a), None) => { let a = D::parse(&a.0).unwrap(); (a, D { mant: a.mant + 1500 * 10i128.pow(a.scale), scale: a.scale }) }
        (None, Some(b)) => { let b = D::parse(&b.0).unwrap(); (D { mant: b.mant - 1500 * 10i128.pow(b.scale), scale: b.scale }, b) }
        (None, None) => (D { mant: -1200, scale: 0 }, D { mant: 1200, scale: 0 }),
    };
    let lo_i = lo.mant / 10i128.pow(lo.scale) - 2;
    let hi_i = hi.mant / 10i128.pow(hi.scale) + 2;
    let span = (hi_i - lo_i).max(1);
    for k in 0..60 {
        let x = lo_i + (span * k) / 60;
        out.push(fmt_dec(x, 0));
        out.push(fmt_dec(x * 10 + rng.below(10) as i128, 1));
        out.push(fmt_dec(x * 1000 + rng.below(1000) as i128, 3));
    }
    // powers of ten neighbourhoods
    for e in [1u32, 2, 3, 9, 18] {
        let p = 10i128.pow(e);
        for d in [-1, 0, 1] { out.push(fmt_dec(p + d, 0)); out.push(fmt_dec(-(p + d), 0)); }
    }
    out.sort();
    out.dedup();
    out.retain(|s| s != "-0" && !s.starts_with("-0.0") || D::parse(s).map(|d| d.mant != 0).unwrap_or(false));
    out
}

pub fn gen_case(rng: &mut Rng, idx: usize, thorough: bool) -> Value {
    // idx 0..: deterministic families first, then random
    let w = if thorough { 130 } else { 40 };
    if idx % 6 == 4 { return json!({"kind": "float", "seed": rng.next() % 1_000_000_000, "n": if thorough { 4000 } else { 800 }}); }
    if idx % 6 == 5 { return json!({"kind": "lexi", "seed": rng.next() % 1_000_000_000, "n": if thorough { 3000 } else { 600 }}); }
    match idx % 5 {
        4 => json!({"kind": "dec-near", "seed": rng.next() % 1_000_000_000, "n": if thorough { 400 } else { 120 }}),
        0 => json!({"kind": "int-grid", "lo": -(w as i64) + (idx as i64 / 4) * 7 % 20, "w": w}),
        1 => json!({"kind": "dec-random", "seed": rng.next() % 1_000_000_000, "n": if thorough { 200 } else { 60 }}),
        2 => json!({"kind": "int-random", "seed": rng.next() % 1_000_000_000, "n": if thorough { 300 } else { 100 }}),
        _ => json!({"kind": "mult-random", "seed": rng.next() % 1_000_000_000, "n": if thorough { 200 } else { 60 }}),
    }
}

fn rand_dec(rng: &mut Rng) -> String {
    let scale = [0u32, 0, 1, 1, 2, 3][rng.below(6)];
    let mag = [20i128, 200, 2000, 15000][rng.below(4)];
    let m = rng.range(-(mag as i64), mag as i64) as i128;
    // avoid trailing zeros in the bound's own text (JSON number text is normalised by f64 anyway)
    let mut s = fmt_dec(m, scale);
    if s.contains('.') { while s.ends_with('0') { s.pop(); } if s.ends_with('.') { s.pop(); } }
    if s == "-0" { s = "0".into(); }
    s
}

/// sometimes state both keywords of a side (minimum and exclusiveMinimum ...), equal or one unit apart
fn add_second(n: &mut Num, rng: &mut Rng) {
    let shift = |v: &str, d: i128| -> String {
        let x = D::parse(v).unwrap();
        let mut s = fmt_dec(x.mant + d, x.scale);
        if s.contains('.') { while s.ends_with('0') { s.pop(); } if s.ends_with('.') { s.pop(); } }
        if s == "-0" { "0".to_string() } else { s }
    };
    if let Some((v, _)) = &n.min { if rng.chance(1, 2) { n.min2 = Some(shift(v, rng.range(-1, 1) as i128)); } }
    if let Some((v, _)) = &n.max { if n.min2.is_none() || rng.chance(1, 2) { n.max2 = Some(shift(v, rng.range(-1, 1) as i128)); } }
}

thread_local! { pub static SAT_REQS: std::cell::RefCell<Vec<(String, String)>> = std::cell::RefCell::new(vec![]); }

pub fn check_num(w: &World, n: &Num, rng: &mut Rng, rep: &mut Report, case: &Value) -> Vec<(String, bool)> {
    let mut verdicts = vec![];
    rep.evaluations += 1;
    let schema = n.schema();
    let g = Gram::Json(schema.clone());
    let base = w.matcher(&g);
    let lits = literals(n, rng);
    let any_expected = satisfiable(n);
    // the same question to the proved Lean decision (theorem hasMult_iff): bounds and step as integers at a common scale
    let sat_req: Option<String> = (|| {
        let (lo, hi) = (n.eff_min()?, n.eff_max()?);
        if !n.lows().iter().chain(n.highs().iter()).all(|b| f64_exact(&b.0)) { return None; }
        let (l, h) = (D::parse(&lo.0)?, D::parse(&hi.0)?);
        let m = match &n.mult { Some(m) => Some(D::parse(m)?), None => None };
        let sc = [Some(l), Some(h), m].into_iter().flatten().map(|d| d.scale).max().unwrap_or(0);
        let up = |d: D| d.mant * 10i128.pow(sc - d.scale);
        let unit = 10i128.pow(sc);
        let step = match (m.map(up), n.integer) { (Some(0), _) => return None, (Some(m), true) => { let g = gcd(m, unit); m / g * unit } (Some(m), false) => m, (None, true) => unit, (None, false) => 0 };
        Some(format!("num sat {} {} {} {} {}", up(l), lo.1 as u8, up(h), hi.1 as u8, step))
    })();
    if let Some(rq) = &sat_req {
        let refused_as_empty = base.is_error() && base.get_error().unwrap_or_default().contains("Unsatisfiable");
        if !base.is_error() || refused_as_empty { SAT_REQS.with(|v| v.borrow_mut().push((rq.clone(), if base.is_error() { "0".into() } else { "1".into() }))); }
    }
    if base.is_error() {
        let msg = crate::eng::err_class(&base.get_error().unwrap_or_default());
        // rejection at compile time is right iff no value satisfies the keywords
        let inexact = explained_by_f64(n, None, false);
        // rx_int_range refuses a half-open range whose bound has 19 digits (i64 guard; the Lean model has the same error branch)
        let huge = n.integer && msg.contains("Failed to generate regex for integer range")
            && f64_view(n).map(|(lo, hi)| [lo, hi].into_iter().flatten().any(|v| v.unsigned_abs() >= 1_000_000_000_000_000_000)).unwrap_or(false);
        if any_expected {
            rep.fail("spec", if inexact { "c08:integer-bound-beyond-2^53" } else if huge { "c08:integer-bound-19-digits-refused" } else { "c08:satisfiable-schema-rejected" }, format!("schema {schema} rejected ({msg}) although it is satisfiable (e.g. {:?} of the grid)", lits.iter().find(|l| D::parse(l).map(|d| n.admits(&d)).unwrap_or(false))), json!({"case": case, "schema": schema}));
        } else {
            rep.count("schemas.rejected_empty");
        }
        return verdicts;
    }
    rep.nontrivial(schema.to_string());
    let mut n_in = 0;
    for l in &lits {
        let Some(d) = D::parse(l) else { continue };
        let exp = n.admits(&d);
        // integer schema and a literal with a fraction part that is integral ("3.0"): not required either way
        if n.integer && l.contains('.') && d.is_integer_value() { continue; }
        let got = accepts(&base, l);
        verdicts.push((l.clone(), got));
        if exp { n_in += 1; }
        if got != exp {
            // classification for known findings
            let frac = l.split_once('.').map(|x| x.1).unwrap_or("");
            let inexact = explained_by_f64(n, Some(&d), got);
            let sig = if inexact { "c08:integer-bound-beyond-2^53" }
                else if !exp && got { "c08:accepts-outside-bounds" }
                else if n.mult.is_some() && frac.ends_with('0') && D::parse(n.mult.as_ref().unwrap()).map(|m| (m.scale as usize) < frac.len()).unwrap_or(false) { "c08:multipleOf-trailing-zeros" }
                else if frac.ends_with('0') { "c08:rejects-trailing-zero-form" }
                else { "c08:rejects-inside-bounds" };
            rep.fail("spec", sig, format!("schema {schema}: literal {l} accepted={got}, expected {exp}"), json!({"case": case, "schema": schema, "literal": l}));
            if !(sig.contains("trailing-zero")) { return verdicts; }
        }
    }
    let _ = n_in;
    if !any_expected {
        rep.fail("spec", "c08:empty-schema-compiled", format!("schema {schema} compiled although no number satisfies it (exact arithmetic)"), json!({"case": case, "schema": schema}));
    }
    verdicts
}

/// integer bounds that `f64` cannot hold exactly are rounded when the schema is read (known finding)
fn f64_exact(s: &str) -> bool {
    // beyond 2^53 neither the bound itself nor bound +- 1 (exclusive bounds) is safe in f64
    match s.parse::<i128>() { Ok(v) => v.abs() < (1i128 << 53), Err(_) => true }
}

/// What the implementation computes for an integer schema whose bounds pass through `f64`
/// (schema.rs reads them as f64, numeric.rs::normalize_integer_bounds adds/subtracts 1.0 in f64):
/// `None` = schema rejected as empty, `Some((lo, hi))` = the i64 bounds handed to rx_int_range.
/// Only used to decide whether a failure on bounds beyond 2^53 is the recorded rounding finding.
fn f64_view(n: &Num) -> Option<(Option<i64>, Option<i64>)> {
    // NumberSchema::get_minimum / get_maximum on the f64 values (the exclusive keyword wins a tie)
    let side = |all: Vec<(String, bool)>, lower: bool| -> Option<(f64, bool)> {
        let inc = all.iter().find(|b| !b.1).map(|b| b.0.parse::<f64>().unwrap());
        let exc = all.iter().find(|b| b.1).map(|b| b.0.parse::<f64>().unwrap());
        match (inc, exc) {
            (Some(i), Some(x)) => if (lower && x >= i) || (!lower && x <= i) { Some((x, true)) } else { Some((i, false)) },
            (Some(i), None) => Some((i, false)),
            (None, Some(x)) => Some((x, true)),
            (None, None) => None,
        }
    };
    let (mn, mx) = (side(n.lows(), true), side(n.highs(), false));
    if let (Some((a, ea)), Some((b, eb))) = (mn, mx) {
        if a > b || (a == b && (ea || eb)) { return None; }
    }
    let lo = mn.map(|(a, ex)| (if ex { if a.fract() != 0.0 { a.ceil() } else { a + 1.0 } } else { a.ceil() }) as i64);
    let hi = mx.map(|(b, ex)| (if ex { if b.fract() != 0.0 { b.floor() } else { b - 1.0 } } else { b.floor() }) as i64);
    if let (Some(l), Some(h)) = (lo, hi) { if l > h { return None; } }
    Some((lo, hi))
}

fn explained_by_f64(n: &Num, lit: Option<&D>, got: bool) -> bool {
    if !n.integer || n.mult.is_some() { return false; }
    if n.lows().iter().chain(n.highs().iter()).all(|b| f64_exact(&b.0)) { return false; }
    match (f64_view(n), lit) {
        (None, None) => true,                       // rejected, and the f64 view is empty
        (Some((lo, hi)), Some(d)) => {
            if d.scale != 0 { return false; }
            let v = d.mant;
            let inside = lo.map(|l| v >= l as i128).unwrap_or(true) && hi.map(|h| v <= h as i128).unwrap_or(true);
            inside == got
        }
        _ => false,
    }
}

/// the Lean regular expression of the modelled recursion must accept exactly what the engine accepts
fn push_sem(mb: &mut ModelBatch, tag: usize, n: &Num, verdicts: &[(String, bool)]) {
    if !n.integer || n.mult.is_some() || verdicts.is_empty() { return; }
    let b = |x: &Option<(String, bool)>, d: i128| x.as_ref().map(|(v, ex)| { let v: i128 = v.parse().unwrap(); if *ex { v + d } else { v } });
    let (lo, hi) = (b(&n.eff_min(), 1), b(&n.eff_max(), -1));
    let f = |x: Option<i128>| x.map(|v| v.to_string()).unwrap_or("none".into());
    let lits: Vec<&(String, bool)> = verdicts.iter().filter(|(l, _)| !l.contains('.')).collect();
    if lits.is_empty() { return; }
    let hex = lits.iter().map(|(l, _)| l.bytes().map(|b| format!("{b:02x}")).collect::<String>()).collect::<Vec<_>>().join(",");
    let bits: String = lits.iter().map(|(_, g)| if *g { '1' } else { '0' }).collect();
    mb.push(format!("num m {} {} {hex}", f(lo), f(hi)), format!("ok {bits}"), tag);
}

pub fn run_case(ctx: &Ctx, case: &Value, tag: usize, rep: &mut Report, mb: &mut ModelBatch) {
    SAT_REQS.with(|v| v.borrow_mut().clear());
    run_case_inner(ctx, case, tag, rep, mb);
    SAT_REQS.with(|v| for (rq, exp) in v.borrow_mut().drain(..) { mb.push(rq, exp, tag); });
}

fn run_case_inner(_ctx: &Ctx, case: &Value, tag: usize, rep: &mut Report, mb: &mut ModelBatch) {
    let sb = vocab::single_byte_words();
    let eos = sb.len() as u32 - 1;
    let Ok(w) = World::new(sb, eos, false, None) else { rep.skip("world"); return; };
    match case["kind"].as_str().unwrap_or("") {
        "int-grid" => {
            // model tie on the whole window, engine check on a sub-sample
            let lo = case["lo"].as_i64().unwrap();
            let wd = case["w"].as_i64().unwrap();
            let mut rng = Rng::new(lo as u64 ^ 77);
            rep.exhaustive = true;
            for a in lo..lo + wd {
                for b in a..lo + wd {
                    rep.evaluations += 1;
                    let r = llguidance::verif::rx_int_range(Some(a), Some(b));
                    match r {
                        Ok(p) => mb.push(format!("num int {a} {b}"), format!("ok {p}"), tag),
                        Err(_) => mb.push(format!("num int {a} {b}"), "err".into(), tag),
                    }
                    if (a + 3 * b) % 11 == 0 {
                        let n = Num { integer: true, min: Some((a.to_string(), false)), max: Some((b.to_string(), false)), mult: None, min2: None, max2: None };
                        let v = check_num(&w, &n, &mut rng, rep, case);
                        push_sem(mb, tag, &n, &v);
                    }
                }
                for (l, r) in [(Some(a), None), (None, Some(a))] {
                    let rr = llguidance::verif::rx_int_range(l, r);
                    let f = |x: Option<i64>| x.map(|v| v.to_string()).unwrap_or("none".into());
                    match rr { Ok(p) => mb.push(format!("num int {} {}", f(l), f(r)), format!("ok {p}"), tag), Err(_) => mb.push(format!("num int {} {}", f(l), f(r)), "err".into(), tag) }
                }
            }
            rep.sample(json!({"kind": "int-grid", "lo": lo, "w": wd}));
        }
        "schemas" => {
            // regression corpus: explicit schemas (each once failed on the pinned tree)
            let mut rng = Rng::new(5);
            for e in case["list"].as_array().cloned().unwrap_or_default() {
                let b = |k: &str| e[k].as_array().map(|a| (a[0].as_str().unwrap().to_string(), a[1].as_bool().unwrap()));
                let n = Num { integer: e["integer"].as_bool().unwrap_or(false), min: b("min"), max: b("max"), mult: e["mult"].as_str().map(|s| s.to_string()), min2: e["min2"].as_str().map(|s| s.to_string()), max2: e["max2"].as_str().map(|s| s.to_string()) };
                let v = check_num(&w, &n, &mut rng, rep, case);
                push_sem(mb, tag, &n, &v);
            }
            rep.sample(json!({"kind": "schemas"}));
        }
        "int-random" => {
            let mut rng = Rng::new(case["seed"].as_u64().unwrap());
            for _ in 0..case["n"].as_u64().unwrap() {
                // magnitudes around powers of ten up to 10^18
                let e = rng.below(19) as u32;
                let p = 10i64.pow(e);
                let mut a: i64 = (if rng.chance(1, 2) { 1 } else { -1 }) * (p + rng.range(-3, 3)).max(0) + rng.range(-2, 2);
                let span = [0i64, 1, 9, 10, 99, 1000, p / 2 + 1][rng.below(7)];
                let mut b: i64 = a.saturating_add(span);
                // beyond 2^53 mostly bounds that f64 holds exactly (the others are the known rounding finding)
                if rng.chance(3, 4) && (a.abs() >= 1 << 53 || b.abs() >= 1 << 53) { a /= 1 << 12; b = a.saturating_add(span.min(1 << 40)); }
                let exmin = rng.chance(1, 4);
                let exmax = rng.chance(1, 4);
                let mut n = Num { integer: true, min: if rng.chance(5, 6) { Some((a.to_string(), exmin)) } else { None }, max: if rng.chance(5, 6) { Some((b.to_string(), exmax)) } else { None }, mult: None, min2: None, max2: None };
                if rng.chance(1, 4) { add_second(&mut n, &mut rng); }
                let v = check_num(&w, &n, &mut rng, rep, case);
                if n.lows().iter().chain(n.highs().iter()).all(|b| f64_exact(&b.0)) { push_sem(mb, tag, &n, &v); }
                let f = |x: Option<i64>| x.map(|v| v.to_string()).unwrap_or("none".into());
                for (l, r) in [(Some(a), Some(b)), (Some(a), None), (None, Some(b))] {
                    match llguidance::verif::rx_int_range(l, r) { Ok(p) => mb.push(format!("num int {} {}", f(l), f(r)), format!("ok {p}"), tag), Err(_) => mb.push(format!("num int {} {}", f(l), f(r)), "err".into(), tag) }
                }
            }
            rep.sample(json!({"kind": "int-random"}));
        }
        "float" => {
            // tie of the Lean model of rx_float_range (all cases; theorems for the helpers and the positive bounded
            // case) to the code: the printed pattern must be string-equal for every pair of decimal bounds
            let mut rng = Rng::new(case["seed"].as_u64().unwrap());
            let ints: [i64; 14] = [-120, -11, -10, -2, -1, 0, 1, 2, 9, 10, 11, 99, 100, 1000];
            let fr = ["", "", ".05", ".1", ".15", ".2", ".25", ".5", ".59", ".75", ".9", ".99", ".125", ".001", ".309", ".0000000000000000000000001", ".1000000000000000055511151231257827"];
            let mut pick = |rng: &mut Rng, near: Option<i64>| -> String {
                let i = match near { Some(v) if rng.chance(2, 3) => v, _ => ints[rng.below(ints.len())] };
                let f = fr[rng.below(fr.len())];
                if i < 0 || (i == 0 && rng.chance(1, 4) && !f.is_empty()) { format!("-{}{}", -i, f) } else { format!("{i}{f}") }
            };
            let canon = |s: &str| -> Option<f64> { let f: f64 = s.parse().ok()?; if format!("{f}") == s { Some(f) } else { None } };
            for _ in 0..case["n"].as_u64().unwrap() {
                let a = pick(&mut rng, None);
                let near = a.split('.').next().unwrap().parse::<i64>().unwrap_or(0);
                let b = pick(&mut rng, Some(near));
                let (l, r) = match rng.below(6) { 0 => (Some(a), None), 1 => (None, Some(b)), _ => (Some(a), Some(b)) };
                let (lf, rf) = (l.as_deref().map(canon), r.as_deref().map(canon));
                if lf == Some(None) || rf == Some(None) { rep.count("float.non-canonical-bound-skipped"); continue; }
                let (li, ri) = (rng.chance(1, 2), rng.chance(1, 2));
                rep.evaluations += 1;
                let got = match std::panic::catch_unwind(|| llguidance::verif::rx_float_range(lf.flatten(), rf.flatten(), li, ri)) {
                    Ok(Ok(p)) => { rep.nontrivial(format!("float|{l:?}|{r:?}|{li}|{ri}")); format!("ok {p}") }
                    Ok(Err(_)) => "err".to_string(),
                    Err(_) => { rep.fail("oracle", "c08:float-range-panic", format!("rx_float_range panicked on ({l:?}, {r:?}, {li}, {ri})"), json!({"kind": "float"})); continue; }
                };
                mb.push(format!("num float {} {} {} {}", l.as_deref().unwrap_or("none"), r.as_deref().unwrap_or("none"), li as u8, ri as u8), got, tag);
            }
            rep.sample(json!({"kind": "float"}));
        }
        "lexi" => {
            // tie of the Lean model of lexi_x_to_9 / lexi_0_to_x / lexi_range (theorems lexi*_lang) to the code
            let mut rng = Rng::new(case["seed"].as_u64().unwrap());
            let digits = |rng: &mut Rng, n: usize| -> String { (0..n).map(|_| char::from(b'0' + [0u8, 0, 1, 4, 5, 8, 9, 9][rng.below(8)])).collect() };
            let dash = |s: &str| if s.is_empty() { "-".to_string() } else { s.to_string() };
            let mut push = |kind: u8, a: &str, b: &str, ai: bool, bi: bool, mb: &mut ModelBatch, rep: &mut Report| {
                rep.evaluations += 1;
                let r = std::panic::catch_unwind(|| llguidance::verif::verif_lexi(kind, a, b, ai, bi));
                let got = match r { Ok(Ok(p)) => { rep.nontrivial(format!("lexi|{kind}|{a}|{b}|{ai}|{bi}")); format!("ok {p}") } Ok(Err(_)) => "err".to_string(), Err(_) => "panic".to_string() };
                if got == "panic" { rep.fail("oracle", "c08:lexi-panic", format!("fraction helper {kind} panicked on ({a:?}, {b:?}, {ai}, {bi})"), json!({"kind": "lexi"})); return; }
                mb.push(format!("num lexi {kind} {} {} {} {}", dash(a), dash(b), ai as u8, bi as u8), got, tag);
            };
            // exhaustive: all digit strings up to length 3 for the one-sided helpers, all equal-length pairs up to length 2
            let mut all: Vec<String> = vec![String::new()];
            for l in 1..=3usize { for v in 0..10usize.pow(l as u32) { all.push(format!("{:0width$}", v, width = l)); } }
            for x in all.iter().filter(|x| x.len() <= if case["n"].as_u64().unwrap() > 1000 { 3 } else { 2 }) {
                for incl in [false, true] { push(0, x, "", incl, false, mb, rep); push(1, x, "", incl, false, mb, rep); }
            }
            for a in all.iter().filter(|x| x.len() <= 2) { for b in all.iter().filter(|x| x.len() == a.len()) {
                if rng.chance(1, 4) { for (ai, bi) in [(false, false), (false, true), (true, false), (true, true)] { push(2, a, b, ai, bi, mb, rep); } }
            } }
            for _ in 0..case["n"].as_u64().unwrap() / 6 {
                let n = 1 + rng.below(7);
                let (a, b) = (digits(&mut rng, n), digits(&mut rng, n));
                let k = rng.below(4);
                push(0, a.trim_end_matches('0'), "", rng.chance(1, 2), false, mb, rep);
                push(1, a.trim_end_matches('0'), "", rng.chance(1, 2), false, mb, rep);
                push(2, &a, &b, k & 1 == 1, k & 2 == 2, mb, rep);
                // close pairs: shared prefix
                let p = rng.below(n);
                let b2 = format!("{}{}", &a[..p], digits(&mut rng, n - p));
                push(2, &a, &b2, k & 2 == 2, k & 1 == 1, mb, rep);
            }
            rep.sample(json!({"kind": "lexi"}));
        }
        "dec-near" => {
            // both bounds from a small lattice, so that equal integer parts, integer-valued bounds,
            // shared fraction prefixes and zero are all frequent
            let ints: [i64; 12] = [-11, -10, -2, -1, 0, 1, 2, 9, 10, 11, 99, 100];
            let fr = ["", "", ".05", ".1", ".15", ".2", ".25", ".3", ".35", ".5", ".59", ".7", ".75", ".9", ".99", ".125", ".001", ".309"];
            let mut rng = Rng::new(case["seed"].as_u64().unwrap());
            let mut pick = |rng: &mut Rng, near: Option<i64>| -> String {
                let i = match near { Some(v) if rng.chance(2, 3) => v, _ => ints[rng.below(ints.len())] };
                let f = fr[rng.below(fr.len())];
                if i < 0 || (i == 0 && rng.chance(1, 4) && !f.is_empty()) { format!("-{}{}", -i, f) } else { format!("{i}{f}") }
            };
            for _ in 0..case["n"].as_u64().unwrap() {
                let a = pick(&mut rng, None);
                let ai = D::parse(&a).unwrap();
                let near = ai.mant / 10i128.pow(ai.scale);
                let b = pick(&mut rng, Some(near as i64));
                let (a, b) = if D::parse(&a).unwrap().cmp(&D::parse(&b).unwrap()) == std::cmp::Ordering::Greater { (b, a) } else { (a, b) };
                let mut n = Num { integer: rng.chance(1, 8), min: if rng.chance(7, 8) { Some((a, rng.chance(1, 2))) } else { None }, max: if rng.chance(7, 8) { Some((b, rng.chance(1, 2))) } else { None }, mult: None, min2: None, max2: None };
                if rng.chance(1, 4) { add_second(&mut n, &mut rng); }
                check_num(&w, &n, &mut rng, rep, case);
            }
            rep.sample(json!({"kind": "dec-near"}));
        }
        "dec-random" => {
            let mut rng = Rng::new(case["seed"].as_u64().unwrap());
            for _ in 0..case["n"].as_u64().unwrap() {
                let a = rand_dec(&mut rng);
                let b = rand_dec(&mut rng);
                let (a, b) = if D::parse(&a).unwrap().cmp(&D::parse(&b).unwrap()) == std::cmp::Ordering::Greater && rng.chance(9, 10) { (b, a) } else { (a, b) };
                let n = Num { integer: rng.chance(1, 5), min: if rng.chance(5, 6) { Some((a, rng.chance(1, 3))) } else { None }, max: if rng.chance(5, 6) { Some((b, rng.chance(1, 3))) } else { None }, mult: None, min2: None, max2: None };
                check_num(&w, &n, &mut rng, rep, case);
            }
            rep.sample(json!({"kind": "dec-random"}));
        }
        _ => {
            let mut rng = Rng::new(case["seed"].as_u64().unwrap());
            for _ in 0..case["n"].as_u64().unwrap() {
                let mult = ["1", "2", "3", "5", "10", "0.1", "0.5", "0.25", "0.01", "1.5", "7", "0.2"][rng.below(12)].to_string();
                let a = rand_dec(&mut rng);
                let b = rand_dec(&mut rng);
                let (a, b) = if D::parse(&a).unwrap().cmp(&D::parse(&b).unwrap()) == std::cmp::Ordering::Greater { (b, a) } else { (a, b) };
                let integer = rng.chance(1, 3);
                // sometimes a narrow interval (emptiness must be detected at compile time)
                let (a, b) = if rng.chance(1, 3) { let x = D::parse(&a).unwrap(); let w = [0i128, 1, 2, 5, 15][rng.below(5)]; (a.clone(), { let mut t = fmt_dec(x.mant + w, x.scale); if t.contains('.') { while t.ends_with('0') { t.pop(); } if t.ends_with('.') { t.pop(); } } if t == "-0" { "0".into() } else { t } }) } else { (a, b) };
                // sometimes a large bound (1e5 .. 1e7) that is an exact decimal multiple of a fractional multipleOf, alone in a
                // window narrower than one step: the f64 quotient bound / multipleOf is then not integral, and the
                // emptiness decision depends on how its rounding error is tolerated
                if rng.chance(1, 4) {
                    let (mm, ms) = [(1i128, 1u32), (1, 3), (3, 1), (1, 2), (7, 1)][rng.below(5)];
                    let q = [1_000_000i128, 10_000_000, 33_333_333, 100_000_001][rng.below(4)] + rng.range(0, 50) as i128;
                    let trim = |mut t: String| { if t.contains('.') { while t.ends_with('0') { t.pop(); } if t.ends_with('.') { t.pop(); } } t };
                    let a = trim(fmt_dec(q * mm, ms));
                    // upper end: the same value, or half a step above it
                    let b = if rng.chance(1, 2) { a.clone() } else { trim(fmt_dec(q * mm * 10 + mm * 5, ms + 1)) };
                    let n = Num { integer: false, min: Some((a, rng.chance(1, 3))), max: Some((b, rng.chance(1, 3))), mult: Some(trim(fmt_dec(mm, ms))), min2: None, max2: None };
                    rep.count("mult.large-bound-narrow-window");
                    check_num(&w, &n, &mut rng, rep, case);
                    continue;
                }
                let n = Num { integer, min: if rng.chance(2, 3) { Some((a, rng.chance(1, 3))) } else { None }, max: if rng.chance(2, 3) { Some((b, rng.chance(1, 3))) } else { None }, mult: Some(mult), min2: None, max2: None };
                check_num(&w, &n, &mut rng, rep, case);
            }
            rep.sample(json!({"kind": "mult-random"}));
        }
    }
}
