//! C08 — numeric bound keywords admit exactly the numbers inside the bounds.
//!
//! impl-vs-spec: for (minimum | exclusiveMinimum, maximum | exclusiveMaximum, multipleOf, integer?)
//! on a dense grid (all integer pairs in a window exhaustively; decimal bounds with up to three
//! fractional digits; magnitudes near powers of ten up to 10^18) every plain decimal literal in
//! and around the interval is accepted iff its exact value satisfies the keywords (exact decimal
//! arithmetic in i128); empty combinations must be rejected at compile time.
//! impl-vs-model: `rx_int_range` (through the hook) must print exactly the pattern the Lean model
//! of the digit recursion prints, and the Lean `Rx` of that pattern must agree on the literals.
use serde_json::{json, Value};

use crate::eng::World;
use crate::engine::Gram;
use crate::model::ModelBatch;
use crate::report::Report;
use crate::rng::Rng;
use crate::vocab;
use crate::Ctx;
use llguidance::Matcher;

/// exact decimal: value = mant / 10^scale
#[derive(Clone, Copy, Debug, PartialEq)]
pub struct D { pub mant: i128, pub scale: u32 }

impl D {
    pub fn parse(s: &str) -> Option<D> {
        let neg = s.starts_with('-');
        let t = s.trim_start_matches('-');
        let (ip, fp) = match t.split_once('.') { Some((a, b)) => (a, b), None => (t, "") };
        if ip.is_empty() || !ip.chars().all(|c| c.is_ascii_digit()) || !fp.chars().all(|c| c.is_ascii_digit()) { return None; }
        let digits = format!("{ip}{fp}");
        let m: i128 = digits.parse().ok()?;
        Some(D { mant: if neg { -m } else { m }, scale: fp.len() as u32 })
    }
    pub fn cmp(&self, o: &D) -> std::cmp::Ordering {
        let s = self.scale.max(o.scale);
        let a = self.mant * 10i128.pow(s - self.scale);
        let b = o.mant * 10i128.pow(s - o.scale);
        a.cmp(&b)
    }
    pub fn is_multiple_of(&self, m: &D) -> bool {
        if m.mant == 0 { return self.mant == 0; }
        let s = self.scale.max(m.scale);
        let a = self.mant * 10i128.pow(s - self.scale);
        let b = m.mant * 10i128.pow(s - m.scale);
        a % b == 0
    }
    pub fn is_integer_value(&self) -> bool { self.mant % 10i128.pow(self.scale) == 0 }
}

#[derive(Clone, Debug)]
pub struct Num { pub integer: bool, pub min: Option<(String, bool)>, pub max: Option<(String, bool)>, pub mult: Option<String> }

impl Num {
    pub fn schema(&self) -> Value {
        let mut m = serde_json::Map::new();
        m.insert("type".into(), json!(if self.integer { "integer" } else { "number" }));
        let num = |s: &str| -> Value { serde_json::from_str(s).unwrap() };
        if let Some((v, ex)) = &self.min { m.insert(if *ex { "exclusiveMinimum" } else { "minimum" }.into(), num(v)); }
        if let Some((v, ex)) = &self.max { m.insert(if *ex { "exclusiveMaximum" } else { "maximum" }.into(), num(v)); }
        if let Some(v) = &self.mult { m.insert("multipleOf".into(), num(v)); }
        Value::Object(m)
    }
    pub fn admits(&self, lit: &D) -> bool {
        if let Some((v, ex)) = &self.min {
            let b = D::parse(v).unwrap();
            match lit.cmp(&b) { std::cmp::Ordering::Less => return false, std::cmp::Ordering::Equal if *ex => return false, _ => {} }
        }
        if let Some((v, ex)) = &self.max {
            let b = D::parse(v).unwrap();
            match lit.cmp(&b) { std::cmp::Ordering::Greater => return false, std::cmp::Ordering::Equal if *ex => return false, _ => {} }
        }
        if let Some(v) = &self.mult { if !lit.is_multiple_of(&D::parse(v).unwrap()) { return false; } }
        if self.integer && !lit.is_integer_value() { return false; }
        true
    }
}

fn accepts(base: &Matcher, s: &str) -> bool {
    let mut m = base.deep_clone();
    let toks: Vec<u32> = s.bytes().map(|b| b as u32).collect();
    match m.validate_tokens(&toks) { Ok(k) if k == toks.len() => {} _ => return false }
    if m.consume_tokens(&toks).is_err() { return false; }
    m.is_accepting().unwrap_or(false) || (m.is_stopped() && format!("{:?}", m.stop_reason()) == "NoExtension")
}

fn fmt_dec(mant: i128, scale: u32) -> String {
    // plain decimal literal with exactly `scale` fractional digits
    let neg = mant < 0;
    let a = mant.unsigned_abs();
    let p = 10u128.pow(scale);
    let ip = a / p;
    let fp = a % p;
    let mut s = if scale == 0 { format!("{ip}") } else { format!("{ip}.{:0width$}", fp, width = scale as usize) };
    if neg && (ip != 0 || fp != 0) { s = format!("-{s}"); }
    s
}

/// literals in and around the bounds: 0..=4 fractional digits, trailing zeros, shorter forms
fn literals(n: &Num, rng: &mut Rng) -> Vec<String> {
    let mut pts: Vec<D> = vec![D { mant: 0, scale: 0 }];
    for b in [&n.min, &n.max].into_iter().flatten() { pts.push(D::parse(&b.0).unwrap()); }
    let mut out: Vec<String> = vec![];
    for p in pts.clone() {
        for scale in 0..=4u32 {
            if scale < p.scale {
                // truncations of the bound (shorter forms) and neighbours at that precision
                let t = p.mant / 10i128.pow(p.scale - scale);
                for d in -2..=2 { out.push(fmt_dec(t + d, scale)); }
            } else {
                let t = p.mant * 10i128.pow(scale - p.scale);
                for d in [-11, -10, -2, -1, 0, 1, 2, 10, 11] { out.push(fmt_dec(t + d, scale)); }
            }
        }
    }
    // integers across the interval and a few random points inside
    let (lo, hi) = match (&n.min, &n.max) {
        (Some(a), Some(b)) => (D::parse(&a.0).unwrap(), D::parse(&b.0).unwrap()),
        (Some(a), None) => { let a = D::parse(&a.0).unwrap(); (a, D { mant: a.mant + 1500 * 10i128.pow(a.scale), scale: a.scale }) }
        (None, Some(b)) => { let b = D::parse(&b.0).unwrap(); (D { mant: b.mant - 1500 * 10i128.pow(b.scale), scale: b.scale }, b) }
        (None, None) => (D { mant: -1200, scale: 0 }, D { mant: 1200, scale: 0 }),
    };
    let lo_i = lo.mant / 10i128.pow(lo.scale) - 2;
    let hi_i = hi.mant / 10i128.pow(hi.scale) + 2;
    let span = (hi_i - lo_i).max(1);
    for k in 0..60 {
        let x = lo_i + (span * k) / 60;
        out.push(fmt_dec(x, 0));
        out.push(fmt_dec(x * 10 + rng.below(10) as i128, 1));
        out.push(fmt_dec(x * 1000 + rng.below(1000) as i128, 3));
    }
    // powers of ten neighbourhoods
    for e in [1u32, 2, 3, 9, 18] {
        let p = 10i128.pow(e);
        for d in [-1, 0, 1] { out.push(fmt_dec(p + d, 0)); out.push(fmt_dec(-(p + d), 0)); }
    }
    out.sort();
    out.dedup();
    out.retain(|s| s != "-0" && !s.starts_with("-0.0") || D::parse(s).map(|d| d.mant != 0).unwrap_or(false));
    out
}

pub fn gen_case(rng: &mut Rng, idx: usize, thorough: bool) -> Value {
    // idx 0..: deterministic families first, then random
    let w = if thorough { 130 } else { 40 };
    match idx % 5 {
        4 => json!({"kind": "dec-near", "seed": rng.next() % 1_000_000_000, "n": if thorough { 400 } else { 120 }}),
        0 => json!({"kind": "int-grid", "lo": -(w as i64) + (idx as i64 / 4) * 7 % 20, "w": w}),
        1 => json!({"kind": "dec-random", "seed": rng.next() % 1_000_000_000, "n": if thorough { 200 } else { 60 }}),
        2 => json!({"kind": "int-random", "seed": rng.next() % 1_000_000_000, "n": if thorough { 300 } else { 100 }}),
        _ => json!({"kind": "mult-random", "seed": rng.next() % 1_000_000_000, "n": if thorough { 200 } else { 60 }}),
    }
}

fn rand_dec(rng: &mut Rng) -> String {
    let scale = [0u32, 0, 1, 1, 2, 3][rng.below(6)];
    let mag = [20i128, 200, 2000, 15000][rng.below(4)];
    let m = rng.range(-(mag as i64), mag as i64) as i128;
    // avoid trailing zeros in the bound's own text (JSON number text is normalised by f64 anyway)
    let mut s = fmt_dec(m, scale);
    if s.contains('.') { while s.ends_with('0') { s.pop(); } if s.ends_with('.') { s.pop(); } }
    if s == "-0" { s = "0".into(); }
    s
}

pub fn check_num(w: &World, n: &Num, rng: &mut Rng, rep: &mut Report, case: &Value) -> Vec<(String, bool)> {
    let mut verdicts = vec![];
    rep.evaluations += 1;
    let schema = n.schema();
    let g = Gram::Json(schema.clone());
    let base = w.matcher(&g);
    let lits = literals(n, rng);
    let any_expected = lits.iter().any(|l| D::parse(l).map(|d| n.admits(&d)).unwrap_or(false));
    if base.is_error() {
        let msg = crate::eng::err_class(&base.get_error().unwrap_or_default());
        // rejection at compile time is right iff no value satisfies the keywords
        let inexact = explained_by_f64(n, None, false);
        if any_expected {
            rep.fail("spec", if inexact { "c08:integer-bound-beyond-2^53" } else { "c08:satisfiable-schema-rejected" }, format!("schema {schema} rejected ({msg}) although e.g. {:?} satisfies it", lits.iter().find(|l| D::parse(l).map(|d| n.admits(&d)).unwrap_or(false))), json!({"case": case, "schema": schema}));
        } else {
            rep.count("schemas.rejected_empty");
        }
        return verdicts;
    }
    rep.nontrivial(schema.to_string());
    let mut n_in = 0;
    for l in &lits {
        let Some(d) = D::parse(l) else { continue };
        let exp = n.admits(&d);
        // integer schema and a literal with a fraction part that is integral ("3.0"): not required either way
        if n.integer && l.contains('.') && d.is_integer_value() { continue; }
        let got = accepts(&base, l);
        verdicts.push((l.clone(), got));
        if exp { n_in += 1; }
        if got != exp {
            // classification for known findings
            let frac = l.split_once('.').map(|x| x.1).unwrap_or("");
            let inexact = explained_by_f64(n, Some(&d), got);
            let sig = if inexact { "c08:integer-bound-beyond-2^53" }
                else if !exp && got { "c08:accepts-outside-bounds" }
                else if n.mult.is_some() && frac.ends_with('0') && D::parse(n.mult.as_ref().unwrap()).map(|m| (m.scale as usize) < frac.len()).unwrap_or(false) { "c08:multipleOf-trailing-zeros" }
                else if frac.ends_with('0') { "c08:rejects-trailing-zero-form" }
                else { "c08:rejects-inside-bounds" };
            rep.fail("spec", sig, format!("schema {schema}: literal {l} accepted={got}, expected {exp}"), json!({"case": case, "schema": schema, "literal": l}));
            if !(sig.contains("trailing-zero")) { return verdicts; }
        }
    }
    if n_in == 0 && !any_expected {
        rep.fail("spec", "c08:empty-schema-compiled", format!("schema {schema} compiled although no literal of the grid satisfies it"), json!({"case": case, "schema": schema}));
    }
    verdicts
}

/// integer bounds that `f64` cannot hold exactly are rounded when the schema is read (known finding)
fn f64_exact(s: &str) -> bool {
    // beyond 2^53 neither the bound itself nor bound +- 1 (exclusive bounds) is safe in f64
    match s.parse::<i128>() { Ok(v) => v.abs() < (1i128 << 53), Err(_) => true }
}

/// What the implementation computes for an integer schema whose bounds pass through `f64`
/// (schema.rs reads them as f64, numeric.rs::normalize_integer_bounds adds/subtracts 1.0 in f64):
/// `None` = schema rejected as empty, `Some((lo, hi))` = the i64 bounds handed to rx_int_range.
/// Only used to decide whether a failure on bounds beyond 2^53 is the recorded rounding finding.
fn f64_view(n: &Num) -> Option<(Option<i64>, Option<i64>)> {
    let p = |x: &Option<(String, bool)>| x.as_ref().map(|(v, ex)| (v.parse::<f64>().unwrap(), *ex));
    let (mn, mx) = (p(&n.min), p(&n.max));
    if let (Some((a, ea)), Some((b, eb))) = (mn, mx) {
        if a > b || (a == b && (ea || eb)) { return None; }
    }
    let lo = mn.map(|(a, ex)| (if ex { if a.fract() != 0.0 { a.ceil() } else { a + 1.0 } } else { a.ceil() }) as i64);
    let hi = mx.map(|(b, ex)| (if ex { if b.fract() != 0.0 { b.floor() } else { b - 1.0 } } else { b.floor() }) as i64);
    if let (Some(l), Some(h)) = (lo, hi) { if l > h { return None; } }
    Some((lo, hi))
}

fn explained_by_f64(n: &Num, lit: Option<&D>, got: bool) -> bool {
    if !n.integer || n.mult.is_some() { return false; }
    if [&n.min, &n.max].into_iter().flatten().all(|b| f64_exact(&b.0)) { return false; }
    match (f64_view(n), lit) {
        (None, None) => true,                       // rejected, and the f64 view is empty
        (Some((lo, hi)), Some(d)) => {
            if d.scale != 0 { return false; }
            let v = d.mant;
            let inside = lo.map(|l| v >= l as i128).unwrap_or(true) && hi.map(|h| v <= h as i128).unwrap_or(true);
            inside == got
        }
        _ => false,
    }
}

/// the Lean regular expression of the modelled recursion must accept exactly what the engine accepts
fn push_sem(mb: &mut ModelBatch, tag: usize, n: &Num, verdicts: &[(String, bool)]) {
    if !n.integer || n.mult.is_some() || verdicts.is_empty() { return; }
    let b = |x: &Option<(String, bool)>, d: i128| x.as_ref().map(|(v, ex)| { let v: i128 = v.parse().unwrap(); if *ex { v + d } else { v } });
    let (lo, hi) = (b(&n.min, 1), b(&n.max, -1));
    let f = |x: Option<i128>| x.map(|v| v.to_string()).unwrap_or("none".into());
    let lits: Vec<&(String, bool)> = verdicts.iter().filter(|(l, _)| !l.contains('.')).collect();
    if lits.is_empty() { return; }
    let hex = lits.iter().map(|(l, _)| l.bytes().map(|b| format!("{b:02x}")).collect::<String>()).collect::<Vec<_>>().join(",");
    let bits: String = lits.iter().map(|(_, g)| if *g { '1' } else { '0' }).collect();
    mb.push(format!("num m {} {} {hex}", f(lo), f(hi)), format!("ok {bits}"), tag);
}

pub fn run_case(_ctx: &Ctx, case: &Value, tag: usize, rep: &mut Report, mb: &mut ModelBatch) {
    let sb = vocab::single_byte_words();
    let eos = sb.len() as u32 - 1;
    let Ok(w) = World::new(sb, eos, false, None) else { rep.skip("world"); return; };
    match case["kind"].as_str().unwrap_or("") {
        "int-grid" => {
            // model tie on the whole window, engine check on a sub-sample
            let lo = case["lo"].as_i64().unwrap();
            let wd = case["w"].as_i64().unwrap();
            let mut rng = Rng::new(lo as u64 ^ 77);
            rep.exhaustive = true;
            for a in lo..lo + wd {
                for b in a..lo + wd {
                    rep.evaluations += 1;
                    let r = llguidance::verif::rx_int_range(Some(a), Some(b));
                    match r {
                        Ok(p) => mb.push(format!("num int {a} {b}"), format!("ok {p}"), tag),
                        Err(_) => mb.push(format!("num int {a} {b}"), "err".into(), tag),
                    }
                    if (a + 3 * b) % 11 == 0 {
                        let n = Num { integer: true, min: Some((a.to_string(), false)), max: Some((b.to_string(), false)), mult: None };
                        let v = check_num(&w, &n, &mut rng, rep, case);
                        push_sem(mb, tag, &n, &v);
                    }
                }
                for (l, r) in [(Some(a), None), (None, Some(a))] {
                    let rr = llguidance::verif::rx_int_range(l, r);
                    let f = |x: Option<i64>| x.map(|v| v.to_string()).unwrap_or("none".into());
                    match rr { Ok(p) => mb.push(format!("num int {} {}", f(l), f(r)), format!("ok {p}"), tag), Err(_) => mb.push(format!("num int {} {}", f(l), f(r)), "err".into(), tag) }
                }
            }
            rep.sample(json!({"kind": "int-grid", "lo": lo, "w": wd}));
        }
        "schemas" => {
            // regression corpus: explicit schemas (each once failed on the pinned tree)
            let mut rng = Rng::new(5);
            for e in case["list"].as_array().cloned().unwrap_or_default() {
                let b = |k: &str| e[k].as_array().map(|a| (a[0].as_str().unwrap().to_string(), a[1].as_bool().unwrap()));
                let n = Num { integer: e["integer"].as_bool().unwrap_or(false), min: b("min"), max: b("max"), mult: e["mult"].as_str().map(|s| s.to_string()) };
                let v = check_num(&w, &n, &mut rng, rep, case);
                push_sem(mb, tag, &n, &v);
            }
            rep.sample(json!({"kind": "schemas"}));
        }
        "int-random" => {
            let mut rng = Rng::new(case["seed"].as_u64().unwrap());
            for _ in 0..case["n"].as_u64().unwrap() {
                // magnitudes around powers of ten up to 10^18
                let e = rng.below(19) as u32;
                let p = 10i64.pow(e);
                let mut a: i64 = (if rng.chance(1, 2) { 1 } else { -1 }) * (p + rng.range(-3, 3)).max(0) + rng.range(-2, 2);
                let span = [0i64, 1, 9, 10, 99, 1000, p / 2 + 1][rng.below(7)];
                let mut b: i64 = a.saturating_add(span);
                // beyond 2^53 mostly bounds that f64 holds exactly (the others are the known rounding finding)
                if rng.chance(3, 4) && (a.abs() >= 1 << 53 || b.abs() >= 1 << 53) { a /= 1 << 12; b = a.saturating_add(span.min(1 << 40)); }
                let exmin = rng.chance(1, 4);
                let exmax = rng.chance(1, 4);
                let n = Num { integer: true, min: if rng.chance(5, 6) { Some((a.to_string(), exmin)) } else { None }, max: if rng.chance(5, 6) { Some((b.to_string(), exmax)) } else { None }, mult: None };
                let v = check_num(&w, &n, &mut rng, rep, case);
                if [&n.min, &n.max].into_iter().flatten().all(|b| f64_exact(&b.0)) { push_sem(mb, tag, &n, &v); }
                let f = |x: Option<i64>| x.map(|v| v.to_string()).unwrap_or("none".into());
                for (l, r) in [(Some(a), Some(b)), (Some(a), None), (None, Some(b))] {
                    match llguidance::verif::rx_int_range(l, r) { Ok(p) => mb.push(format!("num int {} {}", f(l), f(r)), format!("ok {p}"), tag), Err(_) => mb.push(format!("num int {} {}", f(l), f(r)), "err".into(), tag) }
                }
            }
            rep.sample(json!({"kind": "int-random"}));
        }
        "dec-near" => {
            // both bounds from a small lattice, so that equal integer parts, integer-valued bounds,
            // shared fraction prefixes and zero are all frequent
            let ints: [i64; 12] = [-11, -10, -2, -1, 0, 1, 2, 9, 10, 11, 99, 100];
            let fr = ["", "", ".05", ".1", ".15", ".2", ".25", ".3", ".35", ".5", ".59", ".7", ".75", ".9", ".99", ".125", ".001", ".309"];
            let mut rng = Rng::new(case["seed"].as_u64().unwrap());
            let mut pick = |rng: &mut Rng, near: Option<i64>| -> String {
                let i = match near { Some(v) if rng.chance(2, 3) => v, _ => ints[rng.below(ints.len())] };
                let f = fr[rng.below(fr.len())];
                if i < 0 || (i == 0 && rng.chance(1, 4) && !f.is_empty()) { format!("-{}{}", -i, f) } else { format!("{i}{f}") }
            };
            for _ in 0..case["n"].as_u64().unwrap() {
                let a = pick(&mut rng, None);
                let ai = D::parse(&a).unwrap();
                let near = ai.mant / 10i128.pow(ai.scale);
                let b = pick(&mut rng, Some(near as i64));
                let (a, b) = if D::parse(&a).unwrap().cmp(&D::parse(&b).unwrap()) == std::cmp::Ordering::Greater { (b, a) } else { (a, b) };
                let n = Num { integer: rng.chance(1, 8), min: if rng.chance(7, 8) { Some((a, rng.chance(1, 2))) } else { None }, max: if rng.chance(7, 8) { Some((b, rng.chance(1, 2))) } else { None }, mult: None };
                check_num(&w, &n, &mut rng, rep, case);
            }
            rep.sample(json!({"kind": "dec-near"}));
        }
        "dec-random" => {
            let mut rng = Rng::new(case["seed"].as_u64().unwrap());
            for _ in 0..case["n"].as_u64().unwrap() {
                let a = rand_dec(&mut rng);
                let b = rand_dec(&mut rng);
                let (a, b) = if D::parse(&a).unwrap().cmp(&D::parse(&b).unwrap()) == std::cmp::Ordering::Greater && rng.chance(9, 10) { (b, a) } else { (a, b) };
                let n = Num { integer: rng.chance(1, 5), min: if rng.chance(5, 6) { Some((a, rng.chance(1, 3))) } else { None }, max: if rng.chance(5, 6) { Some((b, rng.chance(1, 3))) } else { None }, mult: None };
                check_num(&w, &n, &mut rng, rep, case);
            }
            rep.sample(json!({"kind": "dec-random"}));
        }
        _ => {
            let mut rng = Rng::new(case["seed"].as_u64().unwrap());
            for _ in 0..case["n"].as_u64().unwrap() {
                let mult = ["1", "2", "3", "5", "10", "0.1", "0.5", "0.25", "0.01", "1.5", "7", "0.2"][rng.below(12)].to_string();
                let a = rand_dec(&mut rng);
                let b = rand_dec(&mut rng);
                let (a, b) = if D::parse(&a).unwrap().cmp(&D::parse(&b).unwrap()) == std::cmp::Ordering::Greater { (b, a) } else { (a, b) };
                let integer = rng.chance(1, 3) && !mult.contains('.');
                let n = Num { integer, min: if rng.chance(2, 3) { Some((a, rng.chance(1, 3))) } else { None }, max: if rng.chance(2, 3) { Some((b, rng.chance(1, 3))) } else { None }, mult: Some(mult) };
                check_num(&w, &n, &mut rng, rep, case);
            }
            rep.sample(json!({"kind": "mult-random"}));
        }
    }
}
