//! C05 — a Lark context-free grammar admits exactly the grammar's language.
//!
//! Grammars (random and hand-written; empty productions, left/right/mutual recursion, ambiguity,
//! `? * + {m,n}`, groups, parametric rules) whose terminals cannot be confused (literals with
//! pairwise different first bytes, single-byte classes).  The engine is walked over *every* byte
//! string up to a length bound over the grammar's alphabet (plus a junk byte): at every reachable
//! prefix the accepting flag and the set of allowed bytes are compared with the proved Lean spec
//! S4 (chart recogniser + prefix grammar, `cfg q`).  A second vocabulary with multi-byte tokens
//! checks "token allowed iff prefix ++ token is a prefix of a derivable string".
use serde_json::{json, Value};
use std::collections::HashMap;

use crate::eng::World;
use crate::engine::Gram;
use crate::model::ModelBatch;
use crate::report::Report;
use crate::rng::Rng;
use crate::vocab;
use crate::Ctx;
use llguidance::Matcher;

#[derive(Clone, Debug)]
pub enum It {
    Lit(Vec<u8>),
    Cls(u8, u8),
    Ref(usize),
    Grp(Vec<Vec<It>>),
    Opt(Box<It>),
    Star(Box<It>),
    Plus(Box<It>),
    Rep(Box<It>, usize, usize),
}

#[derive(Clone, Debug)]
pub struct Cfg {
    pub rules: Vec<Vec<Vec<It>>>,
}

#[derive(Clone, Copy, Debug, PartialEq)]
pub enum PS { N(usize), T(u8, u8) }

fn lit(s: &[u8]) -> String {
    let mut o = String::from("\"");
    for &b in s {
        match b { b'"' => o.push_str("\\\""), b'\\' => o.push_str("\\\\"), _ => o.push(b as char) }
    }
    o.push('"');
    o
}

impl Cfg {
    fn item(&self, it: &It) -> String {
        match it {
            It::Lit(s) => lit(s),
            It::Cls(lo, hi) => format!("/[{}-{}]/", *lo as char, *hi as char),
            It::Ref(i) => format!("r{i}"),
            It::Grp(alts) => format!("({})", self.alts(alts)),
            It::Opt(x) => format!("{}?", self.item(x)),
            It::Star(x) => format!("{}*", self.item(x)),
            It::Plus(x) => format!("{}+", self.item(x)),
            It::Rep(x, m, n) => format!("{}{{{m},{n}}}", self.item(x)),
        }
    }
    fn alts(&self, alts: &[Vec<It>]) -> String {
        alts.iter().map(|a| if a.is_empty() { "\"\"".to_string() } else { a.iter().map(|i| self.item(i)).collect::<Vec<_>>().join(" ") }).collect::<Vec<_>>().join(" | ")
    }
    pub fn to_lark(&self) -> String {
        let mut s = String::from("start: r0\n");
        for (i, r) in self.rules.iter().enumerate() {
            s.push_str(&format!("r{i}: {}\n", self.alts(r)));
        }
        s
    }
    /// plain rules over single-byte terminals; operators become fresh nonterminals
    pub fn desugar(&self) -> Vec<(usize, Vec<PS>)> {
        let mut out = vec![];
        let mut next = self.rules.len();
        for (i, r) in self.rules.iter().enumerate() {
            for a in r {
                let rhs = self.seq(a, &mut out, &mut next);
                out.push((i, rhs));
            }
        }
        out
    }
    fn seq(&self, a: &[It], out: &mut Vec<(usize, Vec<PS>)>, next: &mut usize) -> Vec<PS> {
        let mut rhs = vec![];
        for it in a { rhs.extend(self.sym(it, out, next)); }
        rhs
    }
    fn sym(&self, it: &It, out: &mut Vec<(usize, Vec<PS>)>, next: &mut usize) -> Vec<PS> {
        match it {
            It::Lit(s) => s.iter().map(|b| PS::T(*b, *b)).collect(),
            It::Cls(lo, hi) => vec![PS::T(*lo, *hi)],
            It::Ref(i) => vec![PS::N(*i)],
            It::Grp(alts) => {
                let n = *next; *next += 1;
                for a in alts { let rhs = self.seq(a, out, next); out.push((n, rhs)); }
                vec![PS::N(n)]
            }
            It::Opt(x) => {
                let n = *next; *next += 1;
                let xs = self.sym(x, out, next);
                out.push((n, xs)); out.push((n, vec![]));
                vec![PS::N(n)]
            }
            It::Star(x) => {
                let n = *next; *next += 1;
                let mut xs = self.sym(x, out, next);
                xs.push(PS::N(n));
                out.push((n, xs)); out.push((n, vec![]));
                vec![PS::N(n)]
            }
            It::Plus(x) => {
                let n = *next; *next += 1;
                let xs = self.sym(x, out, next);
                let mut rec = vec![PS::N(n)]; rec.extend(xs.clone());
                out.push((n, xs)); out.push((n, rec));
                vec![PS::N(n)]
            }
            It::Rep(x, m, k) => {
                let n = *next; *next += 1;
                let xs = self.sym(x, out, next);
                for c in *m..=*k { let mut rhs = vec![]; for _ in 0..c { rhs.extend(xs.clone()); } out.push((n, rhs)); }
                vec![PS::N(n)]
            }
        }
    }
}

pub fn plain_to_model(rules: &[(usize, Vec<PS>)]) -> String {
    rules.iter().map(|(l, rhs)| format!("{l}:{}", rhs.iter().map(|s| match s { PS::N(n) => format!("n{n}"), PS::T(lo, hi) => format!("t{lo}-{hi}") }).collect::<Vec<_>>().join(","))).collect::<Vec<_>>().join(";")
}

fn productive(rules: &[(usize, Vec<PS>)]) -> bool {
    let n = rules.iter().map(|r| r.0).max().unwrap_or(0) + 1;
    let mut p = vec![false; n.max(rules.iter().flat_map(|r| r.1.iter()).filter_map(|s| if let PS::N(k) = s { Some(*k + 1) } else { None }).max().unwrap_or(0))];
    loop {
        let mut ch = false;
        for (l, rhs) in rules {
            if !p[*l] && rhs.iter().all(|s| match s { PS::N(k) => p[*k], PS::T(lo, hi) => lo <= hi }) { p[*l] = true; ch = true; }
        }
        if !ch { break; }
    }
    // every nonterminal that is mentioned must have a rule and be productive
    rules.iter().all(|(l, rhs)| p[*l] && rhs.iter().all(|s| match s { PS::N(k) => p[*k], _ => true }))
}

const TERM_SETS: &[&[&str]] = &[
    &["a", "b"], &["a", "b", "c"], &["a", "bc"], &["(", ")", "a"], &["a", "+", "("], &["ab", "c"], &["a", "[x-y]"], &["[a-b]", "c"], &["a", "b", "+", ")"],
];

fn term_item(t: &str) -> It {
    if t.starts_with('[') { let b = t.as_bytes(); It::Cls(b[1], b[3]) } else { It::Lit(t.as_bytes().to_vec()) }
}

fn gen_item(rng: &mut Rng, terms: &[&str], nrules: usize, depth: usize) -> It {
    let k = rng.below(100);
    if k < 42 || depth > 1 && k < 70 { return term_item(terms[rng.below(terms.len())]); }
    if k < 72 { return It::Ref(rng.below(nrules)); }
    if k < 80 && depth < 2 {
        let na = 1 + rng.below(2);
        return It::Grp((0..na).map(|_| (0..rng.below(3)).map(|_| gen_item(rng, terms, nrules, depth + 1)).collect()).collect());
    }
    let inner = Box::new(if rng.chance(1, 3) && depth < 2 {
        It::Grp((0..1 + rng.below(2)).map(|_| (0..1 + rng.below(2)).map(|_| gen_item(rng, terms, nrules, depth + 2)).collect()).collect())
    } else if rng.chance(1, 2) { It::Ref(rng.below(nrules)) } else { term_item(terms[rng.below(terms.len())]) });
    match rng.below(4) {
        0 => It::Opt(inner),
        1 => It::Star(inner),
        2 => It::Plus(inner),
        _ => { let m = rng.below(3); let n = if rng.chance(1, 3) { (2 * m).max(1) } else { (m + rng.below(3)).max(1) }; It::Rep(inner, m, n) } // `{0,0}` is not Lark syntax
    }
}

pub fn gen_cfg(rng: &mut Rng) -> (Cfg, Vec<u8>) {
    loop {
        let terms = TERM_SETS[rng.below(TERM_SETS.len())];
        let nrules = 1 + rng.below(4);
        let rules: Vec<Vec<Vec<It>>> = (0..nrules).map(|_| (0..1 + rng.below(3)).map(|_| (0..rng.below(4)).map(|_| gen_item(rng, terms, nrules, 0)).collect()).collect()).collect();
        let g = Cfg { rules };
        let plain = g.desugar();
        if !productive(&plain) { continue; }
        let mut sigma: Vec<u8> = vec![];
        for t in terms { if t.starts_with('[') { let b = t.as_bytes(); for c in b[1]..=b[3] { sigma.push(c); } } else { sigma.extend(t.bytes()); } }
        sigma.sort(); sigma.dedup();
        return (g, sigma);
    }
}

/// hand-written corpus (Lark text, plain rules for the spec, alphabet)
fn corpus() -> Vec<(&'static str, String, Vec<(usize, Vec<PS>)>, Vec<u8>)> {
    let t = |c: u8| PS::T(c, c);
    let n = PS::N;
    vec![
        ("anbn", "start: s\ns: \"a\" s \"b\" | \"\"\n".into(), vec![(0, vec![t(b'a'), n(0), t(b'b')]), (0, vec![])], b"ab".to_vec()),
        ("parens", "start: s\ns: s s | \"(\" s \")\" | \"\"\n".into(), vec![(0, vec![n(0), n(0)]), (0, vec![t(b'('), n(0), t(b')')]), (0, vec![])], b"()".to_vec()),
        ("expr-left", "start: e\ne: e \"+\" t | t\nt: t \"*\" f | f\nf: \"(\" e \")\" | \"a\"\n".into(),
            vec![(0, vec![n(0), t(b'+'), n(1)]), (0, vec![n(1)]), (1, vec![n(1), t(b'*'), n(2)]), (1, vec![n(2)]), (2, vec![t(b'('), n(0), t(b')')]), (2, vec![t(b'a')])], b"a+*(".to_vec()),
        ("ambig", "start: s\ns: s s | \"a\" | \"\"\n".into(), vec![(0, vec![n(0), n(0)]), (0, vec![t(b'a')]), (0, vec![])], b"ab".to_vec()),
        ("mutual", "start: a\na: b \"x\" | \"\"\nb: a \"y\" | \"z\"\n".into(), vec![(0, vec![n(1), t(b'x')]), (0, vec![]), (1, vec![n(0), t(b'y')]), (1, vec![t(b'z')])], b"xyz".to_vec()),
        ("unit-cycle", "start: a\na: b | \"a\"\nb: a | \"b\" a\n".into(), vec![(0, vec![n(1)]), (0, vec![t(b'a')]), (1, vec![n(0)]), (1, vec![t(b'b'), n(0)])], b"ab".to_vec()),
        ("nullable-chain", "start: a\na: b c d\nb: \"b\"?\nc: b b | \"c\"\nd: \"\" | d \"d\"\n".into(),
            vec![(0, vec![n(1), n(2), n(3)]), (1, vec![t(b'b')]), (1, vec![]), (2, vec![n(1), n(1)]), (2, vec![t(b'c')]), (3, vec![]), (3, vec![n(3), t(b'd')])], b"bcd".to_vec()),
        ("right-rec", "start: l\nl: \"a\" l | \"b\"\n".into(), vec![(0, vec![t(b'a'), n(0)]), (0, vec![t(b'b')])], b"ab".to_vec()),
        ("palindrome", "start: p\np: \"a\" p \"a\" | \"b\" p \"b\" | \"a\" | \"b\" | \"\"\n".into(),
            vec![(0, vec![t(b'a'), n(0), t(b'a')]), (0, vec![t(b'b'), n(0), t(b'b')]), (0, vec![t(b'a')]), (0, vec![t(b'b')]), (0, vec![])], b"ab".to_vec()),
        ("rep-1-2", "start: x{1,2} \"c\"\nx: \"a\" | \"b\"\n".into(),
            vec![(0, vec![n(1), t(b'c')]), (0, vec![n(1), n(1), t(b'c')]), (1, vec![t(b'a')]), (1, vec![t(b'b')])], b"abc".to_vec()),
        ("rep-2-4-then-0-2", "start: x{2,4} \"c\" x{0,2} \"c\"\nx: \"a\" | \"b\"\n".into(),
            vec![(0, vec![n(2), t(b'c'), n(3), t(b'c')]), (2, vec![n(1), n(1)]), (2, vec![n(1), n(1), n(1)]), (2, vec![n(1), n(1), n(1), n(1)]),
                 (3, vec![]), (3, vec![n(1)]), (3, vec![n(1), n(1)]), (1, vec![t(b'a')]), (1, vec![t(b'b')])], b"abc".to_vec()),
        ("rep-exact-then-atmost", "start: y z\ny: \"a\"{2} \"b\"\nz: \"a\"{0,2} \"c\" | \"a\"{1,3}\n".into(),
            vec![(0, vec![n(1), n(2)]), (1, vec![t(b'a'), t(b'a'), t(b'b')]), (2, vec![t(b'c')]), (2, vec![t(b'a'), t(b'c')]), (2, vec![t(b'a'), t(b'a'), t(b'c')]),
                 (2, vec![t(b'a')]), (2, vec![t(b'a'), t(b'a')]), (2, vec![t(b'a'), t(b'a'), t(b'a')])], b"abc".to_vec()),
        ("hidden-left", "start: s\ns: n s \"a\" | \"b\"\nn: \"\" | \"c\"\n".into(), vec![(0, vec![n(1), n(0), t(b'a')]), (0, vec![t(b'b')]), (1, vec![]), (1, vec![t(b'c')])], b"abc".to_vec()),
    ]
}

/// parametric grammars, expanded by reachability of (rule, parameter) pairs
fn parametric(idx: usize) -> (String, Vec<(usize, Vec<PS>)>, Vec<u8>) {
    let t = |c: u8| PS::T(c, c);
    match idx % 8 {
        7 => {
            // a guarded single-rule symbol with exactly one user (an inlining candidate whose guard must survive): {aabc, aaabc}
            let lark = "start: cnt::0\ncnt::_: \"a\" cnt::incr(_) %if lt(_, 3)\n | done::_\ndone::_: \"b\" \"c\" %if ge(_, 2)\n".to_string();
            let mut rules = vec![(0, vec![PS::N(1)])];
            for p in 0..=3usize {
                if p < 3 { rules.push((1 + p, vec![t(b'a'), PS::N(2 + p)])); }
                if p >= 2 { rules.push((1 + p, vec![PS::N(5 + p)])); rules.push((5 + p, vec![t(b'b'), t(b'c')])); }
            }
            (lark, rules, b"abc".to_vec())
        }
        5 => {
            // conditional empty alternative, two start values: a{2,6} from t::0, a{0,2} from t::4
            let lark = "start: t::0 | t::4\nt::_: \"a\" t::incr(_) %if lt(_, 6)\n | \"\" %if ge(_, 2)\n".to_string();
            let mut rules = vec![(0, vec![PS::N(1)]), (0, vec![PS::N(5)])];
            for p in 0..=6usize {
                if p < 6 { rules.push((1 + p, vec![t(b'a'), PS::N(2 + p)])); }
                if p >= 2 { rules.push((1 + p, vec![])); }
            }
            (lark, rules, b"a".to_vec())
        }
        6 => {
            // the same counter under two wrappers that end differently
            let lark = "start: a | b\na: t::0 \"!\"\nb: t::4 \"?\"\nt::_: \"a\" t::incr(_) %if lt(_, 6)\n | \"\" %if ge(_, 2)\n".to_string();
            let mut rules = vec![(0, vec![PS::N(1)]), (0, vec![PS::N(2)]), (1, vec![PS::N(3), t(b'!')]), (2, vec![PS::N(7), t(b'?')])];
            for p in 0..=6usize {
                if p < 6 { rules.push((3 + p, vec![t(b'a'), PS::N(4 + p)])); }
                if p >= 2 { rules.push((3 + p, vec![])); }
            }
            (lark, rules, b"a!?".to_vec())
        }
        3 => {
            // one rule live under three parameter values at the same position and origin: {xa, xb, xcc}
            let lark = "start: w::1 | w::2 | w::3\nw::_: \"x\" z::_\nz::_: \"a\" %if eq(_, 1)\n | \"b\" %if eq(_, 2)\n | \"c\" \"c\" %if eq(_, 3)\n".to_string();
            let mut rules = vec![(0, vec![PS::N(1)]), (0, vec![PS::N(2)]), (0, vec![PS::N(3)])];
            for k in 1..=3usize { rules.push((k, vec![t(b'x'), PS::N(3 + k)])); }
            rules.push((4, vec![t(b'a')])); rules.push((5, vec![t(b'b')])); rules.push((6, vec![t(b'c'), t(b'c')]));
            (lark, rules, b"xabc".to_vec())
        }
        4 => {
            // a counter started at two values: {aaab, aaaab, ab, aab}
            let lark = "start: t::0 | t::2\nt::_: \"a\" t::incr(_) %if lt(_, 4)\n | \"b\" %if ge(_, 3)\n".to_string();
            let mut rules = vec![(0, vec![PS::N(1)]), (0, vec![PS::N(3)])];
            for p in 0..=4usize {
                if p < 4 { rules.push((1 + p, vec![t(b'a'), PS::N(2 + p)])); }
                if p >= 3 { rules.push((1 + p, vec![t(b'b')])); }
            }
            (lark, rules, b"ab".to_vec())
        }
        0 => {
            // permutations of a, b, c
            let lark = "start: perm::0x0\nperm::_: \"\" %if is_ones([0:3])\n | \"a\" perm::set_bit(0) %if bit_clear(0)\n | \"b\" perm::set_bit(1) %if bit_clear(1)\n | \"c\" perm::set_bit(2) %if bit_clear(2)\n".to_string();
            let mut rules = vec![];
            for p in 0..8usize {
                if p == 7 { rules.push((p, vec![])); }
                for k in 0..3 { if p & (1 << k) == 0 { rules.push((p, vec![t(b'a' + k as u8), PS::N(p | (1 << k))])); } }
            }
            (lark, rules, b"abc".to_vec())
        }
        1 => {
            // a*b* shorter than 4
            let lark = "start: aa::0\naa::_: \"a\" aa::incr(_) %if lt(_, 4)\n | bb::_\nbb::_: \"b\" bb::incr(_) %if lt(_, 4)\n | \"\"\n".to_string();
            let mut rules = vec![];
            for p in 0..=4usize {
                // aa::p = 2p, bb::p = 2p+1
                if p < 4 { rules.push((2 * p, vec![t(b'a'), PS::N(2 * (p + 1))])); }
                rules.push((2 * p, vec![PS::N(2 * p + 1)]));
                if p < 4 { rules.push((2 * p + 1, vec![t(b'b'), PS::N(2 * (p + 1) + 1)])); }
                rules.push((2 * p + 1, vec![]));
            }
            (lark, rules, b"ab".to_vec())
        }
        _ => {
            // each of a, b at most twice, any order (two 2-bit counters)
            let lark = "start: lst::0x0\nlst::_: \"a\" lst::incr([0:2]) %if lt([0:2], 2)\n | \"b\" lst::incr([2:4]) %if lt([2:4], 2)\n | \"\"\n".to_string();
            let mut rules = vec![];
            for a in 0..=2usize { for b in 0..=2usize {
                let id = a * 3 + b;
                if a < 2 { rules.push((id, vec![t(b'a'), PS::N((a + 1) * 3 + b)])); }
                if b < 2 { rules.push((id, vec![t(b'b'), PS::N(a * 3 + b + 1)])); }
                rules.push((id, vec![]));
            } }
            (lark, rules, b"ab".to_vec())
        }
    }
}

/// many mutually dependent nullable symbols, referenced in every index order (stresses the
/// nullable / conditional-nullable fixpoints and same-position completion)
pub fn gen_nullable_web(rng: &mut Rng) -> (Cfg, Vec<u8>) {
    loop {
        let n = 3 + rng.below(5);
        let terms = ["x", "y", "z"];
        let rules: Vec<Vec<Vec<It>>> = (0..n).map(|i| {
            let mut alts: Vec<Vec<It>> = vec![];
            for _ in 0..1 + rng.below(2) {
                alts.push((0..1 + rng.below(3)).map(|_| if rng.chance(3, 4) { It::Ref(rng.below(n)) } else { term_item(terms[rng.below(3)]) }).collect());
            }
            if rng.chance(1, 3) || i + 1 == n { alts.push(vec![]); }
            if rng.chance(1, 2) { alts.push(vec![term_item(terms[rng.below(3)])]); }
            alts
        }).collect();
        let g = Cfg { rules };
        if !productive(&g.desugar()) { continue; }
        return (g, b"xyz".to_vec());
    }
}

/// grammars whose difficulty is in the lexer: lexeme sets of several lexemes, lazy lexemes (alone, next to greedy
/// ones, right after a greedy lexeme), single-byte lexemes after a greedy one, literals that are prefixes of each
/// other, %ignore between and inside repetitions, intersections and complements
pub fn lexer_families() -> Vec<(&'static str, Vec<&'static str>)> {
    vec![
        ("start: KW ID | ID\nKW: \"if\"\nID: /[a-z]+/\n", vec!["ifx", "if", "iffy", "i"]),
        ("start: stmt+\nstmt: KW \" \" ID \";\" | ID \"=\" NUM \";\"\nKW: \"let\" | \"if\"\nID: /[a-z]+/\nNUM: /[0-9]+/\n", vec!["let x;y=12;", "if if;let=3;", "lets=1;"]),
        ("start: A b \"!\"\nA: /a+/\nb[lazy]: /b+/\n", vec!["aab!", "ab!", "abb!"]),
        ("start: x \"END\"\nx[lazy]: /[a-zE]*;/\n", vec!["ab;END", ";END", "E;END", "aE;;END"]),
        ("start: (W | stop)+ \".\"\nW: /[a-z ]+/\nstop[lazy]: /[a-z]*!/\n", vec!["ab cd!ef!.", "a!.", "!.", "ab."]),
        ("start: TEXT | code \"?\"\nTEXT: /[a-z;]+/\ncode[lazy]: /[a-z]+;/\n", vec!["ab;?", "ab;cd", "a;", "abc"]),
        ("start: A \"(\" A \")\" B?\nA: /[a-z]+/\nB: /[0-9]/\n", vec!["foo(bar)7", "f(x)", "ab(c)"]),
        ("start: (\"a\" | \"ab\" | \"abc\")+ \"!\"\n", vec!["aababc!", "abca!", "abab!"]),
        ("start: W (\",\" W)*\nW: /[a-z]+/ | /[0-9]{1,3}/\n%ignore /[ \\t]+/\n", vec!["ab, 12 ,c", " a,b ", "1,\t2"]),
        ("start: \"[\" (N (\",\" N)*)? \"]\"\nN: /-?[0-9]+/\n%ignore /\\s/\n", vec!["[1, -2,3 ]", "[ ]", "[12]"]),
        ("start: T\nT: /[a-z]+/ & ~/if|in/\n", vec!["ifx", "i", "inn", "x"]),
        ("start: A B\nA: /[ab]*a/\nB: /b[ab]*/ | \"c\"\n", vec!["abab", "ac", "aab", "bac"]),
        ("start: S+\nS: /\"[^\"]*\"/ | /[a-z]+/\n%ignore \" \"\n", vec!["\"a b\" cd \"\"", "ab \"c\"", "\"\"\"\""]),
        ("start: (A | B | C)+\nA: \"<\"\nB: \"<=\"\nC: /[a-z]/\n", vec!["<a<=b", "<<=", "a<"]),
        ("start: X Y\nX: /x{2,4}/\nY: /x?y/\n", vec!["xxy", "xxxxxy", "xxxy"]),
    ]
}

pub fn gen_case(rng: &mut Rng, idx: usize, thorough: bool) -> Value {
    let nc = corpus().len();
    let depth_budget = if thorough { 3000 } else { 1200 };
    if idx < nc { return json!({"kind": "corpus", "i": idx, "budget": depth_budget}); }
    if idx < nc + 8 { return json!({"kind": "param", "i": idx - nc, "budget": depth_budget}); }
    let lf = lexer_families();
    if idx >= nc + 8 && idx < nc + 8 + lf.len() {
        // byte-level engine (M5) on grammars whose difficulty is in the lexer
        let (g, guides) = &lf[idx - nc - 8];
        return json!({"kind": "rows-any", "grammar": {"lark": g}, "guides": guides.iter().map(|s| crate::vocab::hex(s.as_bytes())).collect::<Vec<_>>(), "lexer_family": idx - nc - 8, "seed": rng.next() % 1_000_000_000});
    }
    if idx % 5 == 4 {
        // Earley rows only: Lark grammars with regex lexemes and %ignore, JSON schemas (whitespace skip lexeme)
        let g = if rng.chance(1, 2) { crate::eng::gen_grammar(rng, idx).0.to_json() } else { json!({"json_schema": crate::c07::gen_root(rng)}) };
        return json!({"kind": "rows-any", "grammar": g, "seed": rng.next() % 1_000_000_000});
    }
    if idx % 2 == 0 { return json!({"kind": "nullable-web", "seed": rng.next() % 1_000_000_000, "budget": 300}); }
    json!({"kind": "random", "seed": rng.next() % 1_000_000_000, "budget": depth_budget})
}

struct Walk<'a> {
    sigma: &'a [u8],
    max_len: usize,
    acc: HashMap<Vec<u8>, bool>,
    leaves: Vec<Vec<u8>>,
    rejected: Vec<Vec<u8>>,
    errors: Vec<String>,
}

fn allowed_bytes(m: &mut Matcher) -> Result<Vec<bool>, String> {
    if m.is_stopped() { return Ok(vec![false; 256]); }
    match m.compute_mask() {
        Ok(v) => Ok((0..256usize).map(|b| v.is_allowed(b as u32)).collect()),
        Err(e) => Err(crate::eng::err_class(&e.to_string())),
    }
}

fn dfs(w: &mut Walk, m: &mut Matcher, p: &mut Vec<u8>) {
    let acc = m.is_accepting().unwrap_or(false);
    w.acc.insert(p.clone(), acc);
    let al = match allowed_bytes(m) { Ok(a) => a, Err(e) => { w.errors.push(format!("mask after {:?}: {e}", String::from_utf8_lossy(p))); return; } };
    if p.len() == w.max_len { w.leaves.push(p.clone()); return; }
    let mut any = false;
    for &b in w.sigma {
        p.push(b);
        if al[b as usize] {
            any = true;
            let mut m2 = m.deep_clone();
            match m2.consume_token(b as u32) {
                Ok(()) => dfs(w, &mut m2, p),
                Err(e) => w.errors.push(format!("allowed byte refused after {:?}: {e}", String::from_utf8_lossy(p))),
            }
        } else {
            w.rejected.push(p.clone());
        }
        p.pop();
    }
    if !any { w.leaves.push(p.clone()); }
}

fn expected_bits(w: &Walk, s: &[u8]) -> String {
    let mut o = String::new();
    for k in 0..=s.len() {
        match w.acc.get(&s[..k]) { Some(a) => { o.push(if *a { '1' } else { '0' }); o.push('1'); } None => o.push_str("00") }
    }
    o
}

pub fn run_case(_ctx: &Ctx, case: &Value, tag: usize, rep: &mut Report, mb: &mut ModelBatch) {
    rep.evaluations += 1;
    if case["kind"] == "rows-any" {
        let g = Gram::from_json(&case["grammar"]);
        let sb = vocab::single_byte_words();
        let eos = sb.len() as u32 - 1;
        let Ok(world) = World::new(sb, eos, false, None) else { rep.skip("world"); return; };
        rep.count("family.rows-any");
        earley_tie(&world, &g, &[], case["seed"].as_u64().unwrap_or(3), tag, rep, mb);
        let guides: Vec<Vec<u8>> = case["guides"].as_array().map(|a| a.iter().map(|t| vocab::unhex(t.as_str().unwrap_or(""))).collect()).unwrap_or_default();
        if let Some(f) = case["lexer_family"].as_u64() { rep.count(&format!("case.lexer_family={f}")); }
        crate::lx::lexer_tie(&world, &g, &guides, case["seed"].as_u64().unwrap_or(3), tag, rep, mb);
        rep.nontrivial(case["grammar"].to_string());
        return;
    }
    let (lark, plain, mut sigma, name) = match case["kind"].as_str().unwrap_or("") {
        "corpus" => { let c = corpus().swap_remove(case["i"].as_u64().unwrap() as usize); (c.1, c.2, c.3, c.0.to_string()) }
        "param" => { let (l, r, s) = parametric(case["i"].as_u64().unwrap() as usize); (l, r, s, "parametric".to_string()) }
        "lark" => {
            // replay of an explicit grammar: {"kind":"lark","lark":..,"rules":"0:n1,t97-97;...","sigma":"6162"}
            let rules = case["rules"].as_str().unwrap_or("").split(';').filter(|x| !x.is_empty()).map(|r| { let (l, rhs) = r.split_once(':').unwrap(); (l.parse().unwrap(), rhs.split(',').filter(|x| !x.is_empty()).map(|s| if let Some(n) = s.strip_prefix('n') { PS::N(n.parse().unwrap()) } else { let (a, b) = s[1..].split_once('-').unwrap(); PS::T(a.parse().unwrap(), b.parse().unwrap()) }).collect()) }).collect();
            (case["lark"].as_str().unwrap_or("").to_string(), rules, vocab::unhex(case["sigma"].as_str().unwrap_or("")), "replay".to_string())
        }
        "nullable-web" => { let mut rng = Rng::new(case["seed"].as_u64().unwrap()); let (g, s) = gen_nullable_web(&mut rng); (g.to_lark(), g.desugar(), s, "nullable-web".to_string()) }
        _ => { let mut rng = Rng::new(case["seed"].as_u64().unwrap()); let (g, s) = gen_cfg(&mut rng); (g.to_lark(), g.desugar(), s, "random".to_string()) }
    };
    rep.count(&format!("family.{name}"));
    // one byte outside every terminal: must be rejected everywhere
    if !sigma.contains(&b'q') { sigma.push(b'q'); }
    let budget = case["budget"].as_u64().unwrap_or(1200) as f64;
    let max_len = ((budget.ln() / (sigma.len() as f64).ln()).floor() as usize).clamp(3, 8);
    let sb = vocab::single_byte_words();
    let eos = sb.len() as u32 - 1;
    let Ok(world) = World::new(sb, eos, false, None) else { rep.skip("world"); return; };
    let g = Gram::Lark(lark.clone());
    let mut m = world.matcher(&g);
    let info = json!({"lark": lark, "rules": plain_to_model(&plain), "sigma": vocab::hex(&sigma), "kind": "lark", "budget": budget as u64});
    if m.is_error() {
        rep.fail("spec", "c05:grammar-refused", format!("engine refuses a grammar of the fragment: {}", crate::eng::err_class(&m.get_error().unwrap_or_default())), info);
        return;
    }
    let mut w = Walk { sigma: &sigma, max_len, acc: HashMap::new(), leaves: vec![], rejected: vec![], errors: vec![] };
    dfs(&mut w, &mut m, &mut vec![]);
    if let Some(e) = w.errors.first() {
        rep.fail("oracle", "c05:engine-error", e.clone(), info.clone());
        return;
    }
    rep.nontrivial(lark.clone());
    rep.count_n("prefixes.reachable", w.acc.len() as u64);
    rep.count_n("strings.accepted", w.acc.values().filter(|a| **a).count() as u64);
    rep.count_n("bytes.rejected", w.rejected.len() as u64);
    rep.count(&format!("max_len.{max_len}"));
    mb.push_guard(format!("cfg def {tag} 0 {}", plain_to_model(&plain)), "ok*".into(), tag);
    for s in w.leaves.iter().chain(w.rejected.iter()) {
        mb.push(format!("cfg q {tag} {}", if s.is_empty() { "-".to_string() } else { vocab::hex(s) }), format!("ok {}", expected_bits(&w, s)), tag);
    }
    // multi-byte tokens: allowed(t) after p  <=>  p ++ t is a prefix of a derivable string
    let texts: Vec<Vec<u8>> = w.acc.iter().filter(|(k, a)| **a && k.len() >= 2).map(|(k, _)| k.clone()).take(40).collect();
    if !texts.is_empty() && name != "nullable-web" {
        let mut rng = Rng::new(case["seed"].as_u64().unwrap_or(7) ^ 0x55);
        let (words, eos2) = vocab::synth_words(&mut rng, &texts, 24, None);
        if let Ok(world2) = World::new(words.clone(), eos2, false, None) {
            let mut nodes: Vec<&Vec<u8>> = w.acc.keys().filter(|k| k.len() + 1 < max_len).collect();
            nodes.sort();
            for p in nodes.iter().take(if budget > 2000.0 { 60 } else { 20 }) {
                let mut m2 = world2.matcher(&g);
                if p.iter().any(|b| m2.consume_token(*b as u32).is_err()) { rep.fail("oracle", "c05:replay-refused", format!("prefix {:?} reachable with single-byte tokens is refused in the multi-byte vocabulary", String::from_utf8_lossy(p)), info.clone()); return; }
                if m2.is_stopped() { continue; }
                let Ok(mask) = m2.compute_mask() else { continue };
                for (t, wd) in words.iter().enumerate().skip(256) {
                    if wd.is_empty() || wd[0] == 0xff { continue; }
                    let mut s = (*p).clone(); s.extend_from_slice(wd);
                    let mut bits = String::new();
                    for k in 0..=s.len() {
                        if k == s.len() { bits.push('?'); bits.push(if mask.is_allowed(t as u32) { '1' } else { '0' }); }
                        else { match w.acc.get(&s[..k]) { Some(a) => { bits.push(if *a { '1' } else { '0' }); bits.push('1'); } None => bits.push_str("??") } }
                    }
                    rep.count("tokens.multibyte_checked");
                    mb.push(format!("cfg q {tag} {}", vocab::hex(&s)), format!("ok {bits}"), tag);
                }
            }
        }
    }
    // Earley rows: the items of every row of the real parser vs the Lean model M4 of scan / agenda
    earley_tie(&world, &g, &sigma, case["seed"].as_u64().unwrap_or(11), tag, rep, mb);
    let mut guides: Vec<Vec<u8>> = w.acc.iter().filter(|(k, a)| **a && !k.is_empty()).map(|(k, _)| k.clone()).collect();
    guides.sort_by(|a, b| b.len().cmp(&a.len()).then(a.cmp(b)));
    crate::lx::lexer_tie(&world, &g, &guides, case["seed"].as_u64().unwrap_or(11), tag, rep, mb);
    rep.sample(json!({"family": name, "lark": lark, "max_len": max_len, "reachable": w.acc.len()}));
}

fn csv<T: std::fmt::Display>(v: impl Iterator<Item = T>) -> String { let s: Vec<String> = v.map(|x| x.to_string()).collect(); if s.is_empty() { "-".into() } else { s.join(",") } }

pub fn earley_tie(world: &World, g: &Gram, sigma: &[u8], seed: u64, tag: usize, rep: &mut Report, mb: &mut ModelBatch) {
    let base = world.matcher(g);
    if base.is_error() { return; }
    let Some(cg) = base.verif_token_parser().map(|tp| tp.parser.grammar().verif_dump()) else { return };
    if cg.parametric || cg.syms.iter().any(|s| s.3) { rep.count("earley.skipped-parametric-or-subgrammar"); return; }
    let syms = cg.syms.iter().map(|(rules, nullable, lexeme, _, _)| format!("{}/{}/{}", if rules.is_empty() { "-".to_string() } else { rules.iter().map(|r| r.to_string()).collect::<Vec<_>>().join("+") }, *nullable as u8, lexeme.map(|l| l.to_string()).unwrap_or("-".into()))).collect::<Vec<_>>().join(";");
    let id = 100_000 + tag;
    mb.push_guard(format!("ey def {id} {} {} {} {}", cg.start, csv(cg.rhs.iter()), csv(cg.lhs_of.iter()), syms), "ok".into(), tag);
    // premise of the valid-prefix theorem: the grammars of this property are productive by construction, so
    // every symbol of the compiled grammar must be productive too
    mb.push(format!("ey prod {id}"), "ok 1".into(), tag);
    let mut rng = Rng::new(seed ^ 0xe4);
    let mut seen: std::collections::HashSet<Vec<Vec<u32>>> = std::collections::HashSet::new();
    for _walk in 0..6 {
        let mut m = base.deep_clone();
        for _step in 0..12 {
            if m.is_stopped() { break; }
            let Some(st) = crate::eng::vstate(&m) else { break };
            if st.definitive && st.row_infos_len == st.num_rows && st.row_lexemes.len() + 1 == st.rows.len() && seen.insert(st.row_lexemes.clone()) {
                // skip lexemes (%ignore, JSON whitespace) copy the row: checked here, then removed from the
                // sequence the model sees, with the start rows of the items renumbered accordingly
                let is_skip: Vec<bool> = st.row_lexemes.iter().map(|l| l.iter().any(|x| cg.skips.contains(x))).collect();
                let mut ok = true;
                for (i, sk) in is_skip.iter().enumerate() {
                    if *sk && st.rows[i + 1] != st.rows[i] {
                        rep.fail("oracle", "c05:skip-lexeme-changes-row", format!("row {} after a skip lexeme differs from row {}", i + 1, i), json!({"grammar": g.to_json()}));
                        ok = false;
                    }
                }
                if !ok { return; }
                // compressed index of row i = i - number of skip transitions before it
                let mut cidx = vec![0usize; st.rows.len()];
                for i in 0..is_skip.len() { cidx[i + 1] = cidx[i] + if is_skip[i] { 0 } else { 1 }; }
                let lexs: Vec<String> = st.row_lexemes.iter().zip(is_skip.iter()).filter(|(_, sk)| !**sk).map(|(l, _)| csv(l.iter())).collect();
                let mut rows: Vec<String> = vec![];
                let mut allowed: Vec<String> = vec![];
                for i in 0..st.rows.len() {
                    if i > 0 && is_skip[i - 1] { continue; }
                    // lexemes possible in the lexer start state of the row (what the parser allows next), skip lexemes aside
                    let mut al: Vec<u32> = st.row_allowed.get(i).cloned().unwrap_or_default().into_iter().filter(|l| !cg.skips.contains(l)).collect();
                    al.sort(); al.dedup();
                    allowed.push(csv(al.iter()));
                    let mut items: Vec<(u32, usize)> = st.rows[i].iter().map(|(p, s)| (*p, cidx[*s as usize])).collect();
                    items.sort(); items.dedup();
                    rows.push(if items.is_empty() { "-".to_string() } else { items.iter().map(|(p, s)| format!("{p}:{s}")).collect::<Vec<_>>().join(",") });
                }
                rep.count("earley.states");
                rep.count_n("earley.rows", rows.len() as u64);
                if is_skip.iter().any(|x| *x) { rep.count("earley.states-with-skip-lexeme"); }
                mb.push(format!("ey rows {id} {}", if lexs.is_empty() { "-".to_string() } else { lexs.join("|") }), format!("ok {} acc={} al={}", rows.join(";"),
                    // with no lexeme open, the engine accepts exactly when the last row does
                    if st.has_pending_lexeme_bytes { "?" } else if m.deep_clone().is_accepting().unwrap_or(false) { "1" } else { "0" },
                    allowed.join(";")), tag);
            }
            let Ok(mask) = m.compute_mask() else { break };
            let allowed: Vec<u32> = if sigma.is_empty() { mask.to_list().into_iter().filter(|t| *t < 256).collect() } else { sigma.iter().map(|b| *b as u32).filter(|b| mask.is_allowed(*b)).collect() };
            if allowed.is_empty() { break; }
            let b = allowed[rng.below(allowed.len())];
            if m.consume_token(b).is_err() { break; }
        }
    }
}
