//! Line-protocol client of the Lean model driver (`llgmodel`).
//! Requests are batched; every request yields exactly one response line.
use anyhow::{bail, Context, Result};
use std::io::Write;
use std::process::{Command, Stdio};

pub struct ModelBatch {
    pub exe: String,
    pub reqs: Vec<String>,
    /// (expected response, tag identifying the case)
    pub expect: Vec<(String, usize)>,
}

pub struct Mismatch {
    pub idx: usize,
    pub tag: usize,
    pub request: String,
    pub expected: String,
    pub got: String,
}

impl ModelBatch {
    pub fn new(exe: &str) -> Self {
        ModelBatch { exe: exe.to_string(), reqs: vec![], expect: vec![] }
    }
    pub fn push(&mut self, req: String, expected: String, tag: usize) {
        debug_assert!(!req.contains('\n'));
        self.reqs.push(req);
        self.expect.push((expected, tag));
    }
    pub fn len(&self) -> usize {
        self.reqs.len()
    }
    /// Raw run: returns one response per request.
    pub fn run_raw(exe: &str, reqs: &[String]) -> Result<Vec<String>> {
        let mut child = Command::new(exe)
            .stdin(Stdio::piped())
            .stdout(Stdio::piped())
            .spawn()
            .with_context(|| format!("cannot start model driver {exe}"))?;
        let mut stdin = child.stdin.take().unwrap();
        let data = reqs.join("\n") + "\n";
        let writer = std::thread::spawn(move || {
            let _ = stdin.write_all(data.as_bytes());
        });
        let out = child.wait_with_output()?;
        let _ = writer.join();
        if !out.status.success() {
            bail!("model driver exited with {}", out.status);
        }
        let text = String::from_utf8_lossy(&out.stdout);
        let lines: Vec<String> = text.lines().map(|s| s.to_string()).collect();
        if lines.len() != reqs.len() {
            bail!("model driver returned {} lines for {} requests", lines.len(), reqs.len());
        }
        Ok(lines)
    }
    pub fn run(&self) -> Result<Vec<Mismatch>> {
        if self.reqs.is_empty() {
            return Ok(vec![]);
        }
        let lines = Self::run_raw(&self.exe, &self.reqs)?;
        let mut res = vec![];
        for (i, got) in lines.iter().enumerate() {
            if *got != self.expect[i].0 {
                res.push(Mismatch {
                    idx: i,
                    tag: self.expect[i].1,
                    request: self.reqs[i].clone(),
                    expected: self.expect[i].0.clone(),
                    got: got.clone(),
                });
            }
        }
        Ok(res)
    }
}

pub fn show_list<T: std::fmt::Display>(l: &[T]) -> String {
    if l.is_empty() {
        "-".to_string()
    } else {
        l.iter().map(|x| x.to_string()).collect::<Vec<_>>().join(",")
    }
}
