//! Line-protocol client of the Lean model driver (`llgmodel`).
//! Requests are batched; every request yields exactly one response line.
use anyhow::{bail, Context, Result};
use std::io::Write;
use std::process::{Command, Stdio};

pub struct ModelBatch {
    pub exe: String,
    pub reqs: Vec<String>,
    /// (expected response, tag identifying the case).  In an expected response `?` matches any
    /// single character and a trailing `*` matches any suffix.
    pub expect: Vec<(String, usize)>,
    /// indices of guard requests: when a guard's response does not match, the model could not
    /// decide this case (e.g. state budget exceeded) and the remaining requests of the same tag
    /// are not compared
    pub guards: Vec<usize>,
    pub guard_skipped: std::cell::RefCell<Vec<(usize, String)>>,
}

pub fn wild_eq(expected: &str, got: &str) -> bool {
    // the model may offer two views of one state (`a || b`): either one may be the implementation's
    if got.contains(" || ") {
        return got.split(" || ").any(|g| wild_eq(expected, g));
    }
    if let Some(p) = expected.strip_suffix('*') {
        return got.len() >= p.len() && wild_eq_exact(p, &got[..p.len()]);
    }
    wild_eq_exact(expected, got)
}

fn wild_eq_exact(e: &str, g: &str) -> bool {
    if !e.contains('?') {
        return e == g;
    }
    let (eb, gb) = (e.as_bytes(), g.as_bytes());
    eb.len() == gb.len() && eb.iter().zip(gb).all(|(a, b)| *a == b'?' || a == b)
}

pub struct Mismatch {
    pub idx: usize,
    pub tag: usize,
    pub request: String,
    pub expected: String,
    pub got: String,
}

impl ModelBatch {
    pub fn new(exe: &str) -> Self {
        ModelBatch { exe: exe.to_string(), reqs: vec![], expect: vec![], guards: vec![], guard_skipped: Default::default() }
    }
    pub fn push(&mut self, req: String, expected: String, tag: usize) {
        debug_assert!(!req.contains('\n'));
        self.reqs.push(req);
        self.expect.push((expected, tag));
    }
    pub fn push_guard(&mut self, req: String, expected: String, tag: usize) {
        self.guards.push(self.reqs.len());
        self.push(req, expected, tag);
    }
    pub fn len(&self) -> usize {
        self.reqs.len()
    }
    /// Raw run: returns one response per request.
    pub fn run_raw(exe: &str, reqs: &[String]) -> Result<Vec<String>> {
        let mut child = Command::new(exe)
            .stdin(Stdio::piped())
            .stdout(Stdio::piped())
            .spawn()
            .with_context(|| format!("cannot start model driver {exe}"))?;
        let mut stdin = child.stdin.take().unwrap();
        let data = reqs.join("\n") + "\n";
        if let Ok(p) = std::env::var("LLGV_DUMP_REQS") { let _ = std::fs::write(p, &data); }
        let writer = std::thread::spawn(move || {
            let _ = stdin.write_all(data.as_bytes());
        });
        let out = child.wait_with_output()?;
        let _ = writer.join();
        if !out.status.success() {
            bail!("model driver exited with {}", out.status);
        }
        let text = String::from_utf8_lossy(&out.stdout);
        let lines: Vec<String> = text.lines().map(|s| s.to_string()).collect();
        if lines.len() != reqs.len() {
            bail!("model driver returned {} lines for {} requests", lines.len(), reqs.len());
        }
        Ok(lines)
    }
    pub fn run(&self) -> Result<Vec<Mismatch>> {
        if self.reqs.is_empty() {
            return Ok(vec![]);
        }
        let lines = Self::run_raw(&self.exe, &self.reqs)?;
        let mut res = vec![];
        let mut dead_tags: std::collections::HashSet<usize> = Default::default();
        for (i, got) in lines.iter().enumerate() {
            if dead_tags.contains(&self.expect[i].1) {
                continue;
            }
            if self.guards.contains(&i) {
                if !wild_eq(&self.expect[i].0, got) {
                    dead_tags.insert(self.expect[i].1);
                    self.guard_skipped.borrow_mut().push((self.expect[i].1, got.clone()));
                }
                continue;
            }
            if !wild_eq(&self.expect[i].0, got) {
                res.push(Mismatch {
                    idx: i,
                    tag: self.expect[i].1,
                    request: self.reqs[i].clone(),
                    expected: self.expect[i].0.clone(),
                    got: got.clone(),
                });
            }
        }
        Ok(res)
    }
}

pub fn show_list<T: std::fmt::Display>(l: &[T]) -> String {
    if l.is_empty() {
        "-".to_string()
    } else {
        l.iter().map(|x| x.to_string()).collect::<Vec<_>>().join(",")
    }
}
