//! C12 — rolling back tokens restores exactly the earlier state.
//!
//! impl-vs-oracle: nested commit / rollback / reset sequences; after every rollback the engine is
//! compared with a fresh engine that replayed the surviving tokens: mask, accepting flag, forced
//! bytes, stop status, and behaviour on random continuations.
//! impl-vs-model: lengths of the token list, byte lists, byte->token map and lexer stack after
//! every operation vs. the Lean rollback model (`RState`, `Model/Cache.lean`).
use serde_json::{json, Value};

use crate::c11::world_of;
use crate::eng::{self, Obs};
use crate::model::ModelBatch;
use crate::report::Report;
use crate::rng::Rng;
use crate::vocab::hex_or_underscore;
use crate::Ctx;
use llguidance::Matcher;

pub fn gen_case(rng: &mut Rng, idx: usize, thorough: bool) -> Value {
    if idx % 6 == 5 {
        // special tokens by id, over a vocabulary with special ids up to 1099: the byte length the rollback
        // arithmetic uses for them is that of the spelling \xFF[id]
        let lo = [300usize, 990, 1000, 1005, 1090, 998][idx / 6 % 6];
        let g = format!("start: \"a\" <[{}-{}]> \"b\" (\"c\" | <[{}]>)*\n", lo, lo + 9, lo + 3);
        return json!({"grammar": {"lark": g}, "texts": [crate::vocab::hex(b"abcc"), crate::vocab::hex(b"bc")],
               "vocab_kind": 3, "canonical": false, "seed": rng.next() % 1_000_000_000, "steps": if thorough { 40 } else { 24 }});
    }
    let (g, texts) = eng::gen_grammar(rng, idx);
    json!({"grammar": g.to_json(), "texts": texts.iter().map(|t| crate::vocab::hex(t)).collect::<Vec<_>>(),
           "vocab_kind": (idx + idx / 3) % 3, "canonical": idx % 5 == 1, "seed": rng.next() % 1_000_000_000, "steps": if thorough { 40 } else { 24 }})
}

fn bytes_len(m: &Matcher) -> usize {
    m.verif_token_parser().map(|tp| tp.final_bytes().len()).unwrap_or(0)
}

fn lens(m: &Matcher) -> Option<String> {
    let tp = m.verif_token_parser()?;
    let st = tp.parser.verif_state();
    // forced bytes may already be in `bytes` / the lexer stack (one stack entry per byte): the model
    // covers the committed part, so the stack is reported relative to the byte count
    Some(format!("{} {} {} {}", tp.num_tokens(), tp.final_bytes().len(), st.byte_to_token_len, st.lexer_stack.len() as i64 - st.bytes.len() as i64))
}

fn compare(step: usize, what: &str, a: &Obs, b: &Obs, rep: &mut Report, repro: &Value) -> bool {
    if a != b {
        let field = if a.mask != b.mask { "mask" } else if a.accepting != b.accepting { "accepting" } else if a.ff_bytes != b.ff_bytes { "forced-bytes" } else { "stop-status" };
        rep.fail("oracle", &format!("c12:{what}-{field}"), format!("step {step}: after {what} engine {:?} vs fresh replay {:?}", eng::obs_json(a), eng::obs_json(b)), repro.clone());
        false
    } else {
        true
    }
}

pub fn run_case(_ctx: &Ctx, case: &Value, tag: usize, rep: &mut Report, mb: &mut ModelBatch) {
    let mut rng = Rng::new(case["seed"].as_u64().unwrap());
    let Some((g, w)) = world_of(case, &mut rng) else { rep.skip("world"); return; };
    let steps = case["steps"].as_u64().unwrap() as usize;
    let mut m = w.matcher(&g);
    if m.is_error() {
        rep.skip("grammar-rejected");
        return;
    }
    let mut toks: Vec<u32> = vec![];
    let mut oplog: Vec<String> = vec![];
    mb.push("reset".into(), "ok".into(), tag);
    mb.push(format!("rb init {}", w.eos), "ok".into(), tag);
    let mut registered: std::collections::HashSet<u32> = Default::default();
    let mut model_ok = true;
    for step in 0..steps {
        rep.evaluations += 1;
        let stopped = m.is_stopped();
        let mask = if stopped { Err("stopped".to_string()) } else { eng::mask_of(&mut m) };
        let can_commit = matches!(&mask, Ok(v) if !v.is_empty()) && !m.is_stopped();
        let r = rng.below(10);
        if (r < 3 || !can_commit) && !toks.is_empty() {
            // rollback k (or reset)
            // after a committed EOS, undoing exactly that EOS is the interesting rollback (zero bytes, but the lexer was flushed)
            let k = if r == 0 { toks.len() } else if toks.last() == Some(&w.eos) && rng.chance(1, 2) { 1 } else { 1 + rng.below(toks.len().min(4)) };
            let res = if r == 0 && rng.chance(1, 2) { m.reset() } else { m.rollback(k) };
            oplog.push(format!("rb{k}"));
            let repro = json!({"case": case, "tokens": toks, "ops": oplog});
            match res {
                Ok(()) => {
                    toks.truncate(toks.len() - k);
                    rep.count("op.rollback");
                    if stopped { rep.count("op.rollback.after_stop"); }
                    if model_ok {
                        if let Some(l) = lens(&m) { mb.push(format!("rb r {k}"), format!("ok {l}"), tag); }
                    }
                    let mut f = w.replay(&g, &toks);
                    if rng.chance(1, 2) {
                        // "blind" replacement: commit different tokens right after the rollback
                        // without any query on the rolled-back engine in between (what a
                        // speculative-decoding caller does); the tokens come from a shadow engine
                        let nb = 1 + rng.below(3);
                        let mut blind_ok = true;
                        for _ in 0..nb {
                            if f.is_stopped() { break; }
                            let Ok(al) = eng::mask_of(&mut f) else { break };
                            if al.is_empty() { break; }
                            let t = *rng.pick(&al);
                            let pre_bytes = bytes_len(&m);
                            let ra = m.consume_token(t).is_ok();
                            let rb = f.consume_token(t).is_ok();
                            oplog.push(format!("b{t}"));
                            if ra != rb {
                                rep.fail("oracle", "c12:blind-commit", format!("step {step}: after rollback, commit {t} without queries: engine {ra}, fresh replay {rb}"), repro.clone());
                                blind_ok = false;
                                break;
                            }
                            if !ra { blind_ok = false; break; }
                            toks.push(t);
                            if model_ok {
                                if registered.insert(t) {
                                    mb.push(format!("rb tok {t} {}", hex_or_underscore(&w.words[t as usize])), "ok".into(), tag);
                                }
                                if let Some(l) = lens(&m) {
                                    // an EOS that ended the sequence adds no bytes; an EOS id the grammar consumed as a token does
                                    if t == w.eos && bytes_len(&m) == pre_bytes {
                                        let extra = eng::vstate(&m).map(|st| st.lexer_stack_top_eos as u8).unwrap_or(0);
                                        mb.push(format!("rb e {t} {extra}"), format!("ok {l}"), tag)
                                    } else {
                                        mb.push(format!("rb c {t}"), format!("ok {l}"), tag)
                                    }
                                }
                            }
                            rep.count("op.blind_commit");
                        }
                        if !blind_ok { break; }
                    }
                    if std::env::var("LLGV_TRACE").is_ok() { eprintln!("observe after {:?} toks {:?} bytes {:?}", oplog, toks, String::from_utf8_lossy(&toks.iter().flat_map(|t| w.words[*t as usize].clone()).collect::<Vec<u8>>())); }
                    let a = eng::observe(&mut m);
                    let b = eng::observe(&mut f);
                    if !compare(step, "rollback", &a, &b, rep, &repro) {
                        break;
                    }
                    rep.nontrivial(format!("{}|{:?}|{k}", case["grammar"], toks));
                    // behaviour on a random continuation
                    let mut mc = m.deep_clone();
                    let mut fc = f;
                    let mut ctoks = toks.clone();
                    for j in 0..6 {
                        let ma = eng::mask_of(&mut mc);
                        let mbm = eng::mask_of(&mut fc);
                        if ma != mbm {
                            rep.fail("oracle", "c12:continuation-mask", format!("step {step}: continuation step {j} after rollback: masks differ"), json!({"case": case, "tokens": ctoks, "ops": oplog}));
                            break;
                        }
                        let Ok(al) = ma else { break };
                        if al.is_empty() || mc.is_stopped() { break; }
                        let t = *rng.pick(&al);
                        let ra = mc.consume_token(t).is_ok();
                        let rb = fc.consume_token(t).is_ok();
                        ctoks.push(t);
                        if ra != rb || mc.is_stopped() != fc.is_stopped() {
                            rep.fail("oracle", "c12:continuation-commit", format!("step {step}: continuation commit {t}: {ra} vs {rb}"), json!({"case": case, "tokens": ctoks, "ops": oplog}));
                            break;
                        }
                    }
                }
                Err(e) => {
                    // a rollback of at most the committed tokens on an engine that is not in an error state must succeed:
                    // a refusal leaves the engine holding tokens it was asked to drop
                    let msg = eng::err_class(&e.to_string());
                    if msg.contains("parser error") || msg.contains("not initialized") || msg.contains("Too many") {
                        rep.skip(&format!("rollback-error:{msg}"));
                    } else {
                        rep.fail("oracle", "c12:rollback-refused", format!("step {step}: rollback of {k} of {} committed tokens refused: {msg}", toks.len()), repro.clone());
                    }
                    break;
                }
            }
        } else if can_commit {
            let allowed = mask.unwrap();
            let non_eos: Vec<u32> = allowed.iter().copied().filter(|t| *t != w.eos).collect();
            let has_eos = allowed.binary_search(&w.eos).is_ok();
            let t = if has_eos && rng.chance(1, 4) { w.eos } else if !non_eos.is_empty() && rng.chance(5, 6) { *rng.pick(&non_eos) } else { *rng.pick(&allowed) };
            oplog.push(format!("c{t}"));
            let pre_bytes = bytes_len(&m);
            if m.consume_token(t).is_err() {
                rep.fail("oracle", "c12:commit-of-masked-token-failed", format!("step {step}: token {t} from the mask rejected"), json!({"case": case, "tokens": toks, "ops": oplog}));
                break;
            }
            toks.push(t);
            rep.count(if t == w.eos { "op.commit.eos" } else { "op.commit" });
            if model_ok {
                if registered.insert(t) {
                    mb.push(format!("rb tok {t} {}", hex_or_underscore(&w.words[t as usize])), "ok".into(), tag);
                }
                match lens(&m) {
                    Some(l) => {
                        if t == w.eos && bytes_len(&m) == pre_bytes {
                            let extra = eng::vstate(&m).map(|st| st.lexer_stack_top_eos as u8).unwrap_or(0);
                            mb.push(format!("rb e {t} {extra}"), format!("ok {l}"), tag)
                        } else {
                            mb.push(format!("rb c {t}"), format!("ok {l}"), tag)
                        }
                    }
                    None => model_ok = false,
                }
            }
        } else {
            break;
        }
    }
    rep.sample(json!({"grammar": case["grammar"], "vocab": w.vocab_size(), "ops": oplog.iter().take(30).collect::<Vec<_>>()}));
}
