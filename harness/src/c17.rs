//! C17 — the C API returns what the Rust API returns and stays inside caller buffers.
//!
//! impl-vs-oracle: `llg_*` functions next to `Constraint`/`Matcher` on the same histories;
//! `llg_par_compute_mask` with destination buffers of every length (canaries on both sides,
//! pre-filled pattern).  impl-vs-model: Lean `parCopy` / `computeMaskInto?` (M13).
use std::ffi::CString;

use llguidance::ffi::*;
use llguidance::toktrie::TokEnv;
use serde_json::{json, Value};

use crate::engine::{self, Gram};
use crate::model::{show_list, ModelBatch};
use crate::report::Report;
use crate::rng::Rng;
use crate::vocab;
use crate::Ctx;

const CANARY: u32 = 0xC0FFEE11;
const FILL: u32 = 0xDEADBEEF;
const PAD: usize = 8;

struct CTok {
    ptr: *mut LlgTokenizer,
    // the trie the tokenize callback of a canonical tokenizer reads (user_data points into the box)
    _trie: Option<Box<toktrie::TokTrie>>,
}

/// `tokenize_fn` of the C API: greedy tokenisation over the same trie as the Rust-side environment
extern "C" fn c_tokenize(user_data: *const std::ffi::c_void, bytes: *const u8, bytes_len: usize, out: *mut u32, out_len: usize) -> usize {
    let trie = unsafe { &*(user_data as *const toktrie::TokTrie) };
    let s = unsafe { std::slice::from_raw_parts(bytes, bytes_len) };
    let toks = trie.greedy_tokenize(s);
    let n = toks.len().min(out_len);
    unsafe { std::ptr::copy_nonoverlapping(toks.as_ptr(), out, n) };
    toks.len()
}
impl Drop for CTok {
    fn drop(&mut self) {
        unsafe { llg_free_tokenizer(self.ptr) }
    }
}

fn new_ctok(words: &[Vec<u8>], eos: u32, canonical: bool) -> Result<CTok, String> {
    let trie: Option<Box<toktrie::TokTrie>> = if canonical {
        Some(Box::new(toktrie::TokTrie::from(&toktrie::TokRxInfo::new(words.len() as u32, eos), words)))
    } else { None };
    let lens: Vec<u32> = words.iter().map(|w| w.len() as u32).collect();
    let bytes: Vec<u8> = words.iter().flat_map(|w| w.iter().copied()).collect();
    let empty: [*const std::ffi::c_char; 1] = [std::ptr::null()];
    let init = LlgTokenizerInit {
        vocab_size: words.len() as u32,
        tok_eos: eos,
        token_lens: lens.as_ptr(),
        token_bytes: bytes.as_ptr(),
        tokenizer_json: std::ptr::null(),
        tokenize_assumes_string: false,
        tokenize_fn: if canonical { Some(c_tokenize) } else { None },
        use_approximate_greedy_tokenize_fn: !canonical,
        tokenize_user_data: trie.as_ref().map(|t| &**t as *const toktrie::TokTrie as *const std::ffi::c_void).unwrap_or(std::ptr::null()),
        slices: empty.as_ptr(),
    };
    let mut err = vec![0u8; 512];
    let p = unsafe { llg_new_tokenizer(&init, err.as_mut_ptr() as *mut _, err.len()) };
    if p.is_null() {
        let n = err.iter().position(|&b| b == 0).unwrap_or(err.len());
        Err(String::from_utf8_lossy(&err[..n]).to_string())
    } else {
        Ok(CTok { ptr: p, _trie: trie })
    }
}

fn new_cconstraint(tok: &CTok, g: &Gram) -> *mut LlgConstraint {
    let mut init: LlgConstraintInit = unsafe { std::mem::zeroed() };
    llg_constraint_init_set_defaults(&mut init, tok.ptr);
    init.log_stderr_level = 0;
    init.log_buffer_level = 0;
    let (tag, data) = match g {
        Gram::Lark(s) => ("lark", s.clone()),
        Gram::Regex(s) => ("regex", s.clone()),
        Gram::Json(v) => ("json_schema", v.to_string()),
    };
    let tag = CString::new(tag).unwrap();
    let data = CString::new(data).unwrap();
    llg_new_constraint_any(&init, tag.as_ptr(), data.as_ptr())
}

fn cerr(c: *mut LlgConstraint) -> Option<String> {
    let p = llg_get_error(unsafe { &*c });
    if p.is_null() {
        None
    } else {
        Some(unsafe { std::ffi::CStr::from_ptr(p) }.to_string_lossy().to_string())
    }
}

pub fn gen_case(rng: &mut Rng, idx: usize, tier_thorough: bool) -> Value {
    let corpus = engine::small_corpus();
    let g = &corpus[idx % corpus.len()];
    // vocabulary sizes around multiples of 32 (mask has vocab+1 bits of storage)
    let base = [288usize, 320, 352, 384, 1024][rng.below(5)];
    let delta = [-2i64, -1, 0, 1, 2, 31, 33][rng.below(7)];
    let target = (base as i64 + delta) as usize;
    let steps = rng.below(if tier_thorough { 12 } else { 6 });
    json!({"grammar": g.to_json(), "vocab_target": target, "steps": steps, "canonical": (idx / corpus.len()) % 2 == 1, "seed": rng.next() % 1_000_000})
}

fn texts_for(g: &Gram) -> Vec<Vec<u8>> {
    match g {
        Gram::Lark(s) => vec![s.as_bytes().to_vec(), b"xabc1yzz2(a)bc,123,45".to_vec()],
        Gram::Regex(s) => vec![s.as_bytes().to_vec(), b"ababcdeeeabcx".to_vec()],
        Gram::Json(v) => vec![v.to_string().into_bytes(), b"{\"a\":12,\"b\":\"xy\"} [\"yy\",true,null]".to_vec()],
    }
}

pub fn run_case(ctx: &Ctx, case: &Value, tag: usize, rep: &mut Report, mb: &mut ModelBatch) {
    let g = Gram::from_json(&case["grammar"]);
    let mut rng = Rng::new(case["seed"].as_u64().unwrap());
    let target = case["vocab_target"].as_u64().unwrap() as usize;
    let steps = case["steps"].as_u64().unwrap() as usize;
    let (words, eos) = vocab::synth_words(&mut rng, &texts_for(&g), 24, Some(target));
    let vocab_n = words.len();
    // half of the cases on a canonical tokenizer (a tokenize callback on the C side): only then are tokens forced
    let canonical = case["canonical"].as_bool().unwrap_or(false);
    let env: TokEnv = vocab::env_from_words(&words, eos, canonical);
    let fac = match engine::factory(&env, None, false) {
        Ok(f) => f,
        Err(e) => {
            rep.skip(&format!("factory:{e}"));
            return;
        }
    };
    let mut rc = match engine::constraint(&fac, &g) {
        Ok(c) => c,
        Err(_) => {
            rep.skip("grammar-rejected");
            return;
        }
    };
    let mut rm = engine::matcher(&fac, &g);
    let tok = match new_ctok(&words, eos, canonical) {
        Ok(t) => t,
        Err(e) => {
            rep.fail("oracle", "c17:tokenizer", format!("llg_new_tokenizer failed: {e}"), case.clone());
            return;
        }
    };
    let cc = new_cconstraint(&tok, &g);
    if let Some(e) = cerr(cc) {
        rep.fail("oracle", "c17:constraint", format!("llg_new_constraint_any failed but Rust API built: {e}"), case.clone());
        unsafe { llg_free_constraint(cc) };
        return;
    }
    // a matcher through the C API as well
    let mut minit: LlgConstraintInit = unsafe { std::mem::zeroed() };
    llg_constraint_init_set_defaults(&mut minit, tok.ptr);
    minit.log_stderr_level = 0;
    let (tagc, datac) = match &g {
        Gram::Lark(s) => ("lark", s.clone()),
        Gram::Regex(s) => ("regex", s.clone()),
        Gram::Json(v) => ("json_schema", v.to_string()),
    };
    let tagc = CString::new(tagc).unwrap();
    let datac = CString::new(datac).unwrap();
    let cm = unsafe { llg_new_matcher(&minit, tagc.as_ptr(), datac.as_ptr()) };

    let mask_words = (vocab_n + 1 + 31) / 32;
    let mut stopped = false;
    for step in 0..=steps {
        rep.evaluations += 1;
        // ---- Rust side
        let rres = rc.compute_mask();
        let (rmask, ris_stop): (Option<Vec<u32>>, bool) = match rres {
            Ok(r) => (r.sample_mask.as_ref().map(|m| m.as_slice().to_vec()), r.is_stop()),
            Err(e) => {
                rep.skip(&format!("rust-compute-mask-error:{}", e.to_string().lines().next().unwrap_or("")));
                break;
            }
        };
        if ris_stop {
            // first discovery of the stop through the parallel entry point: EOS bit only
            let d = rng.below(mask_words + 4);
            let mut buf = vec![FILL; d + 2 * PAD];
            for i in 0..PAD {
                buf[i] = CANARY;
                let n = buf.len();
                buf[n - 1 - i] = CANARY;
            }
            let stepd = LlgConstraintStep { constraint: cc, mask_dest: unsafe { buf.as_mut_ptr().add(PAD) }, mask_byte_len: d * 4 };
            unsafe { llg_par_compute_mask(&stepd, 1, std::ptr::null(), None) };
            rep.count("par_copy_calls_at_stop");
            let ok_can = (0..PAD).all(|i| buf[i] == CANARY && buf[buf.len() - 1 - i] == CANARY);
            if !ok_can {
                rep.fail("oracle", "c17:par-canary", format!("step {step}: write outside caller buffer at stop (d={d})"), json!({"case": case, "d": d, "step": step}));
            }
            let dest = &buf[PAD..PAD + d];
            for i in 0..d {
                let exp = if (eos as usize) / 32 == i { 1u32 << (eos % 32) } else { 0 };
                if dest[i] != exp {
                    rep.fail("oracle", "c17:par-stop-mask", format!("step {step}: at stop d={d} word {i} = {:#x}, expected {exp:#x}", dest[i]), json!({"case": case, "d": d, "step": step}));
                    break;
                }
            }
            mb.push(format!("parcopy 0 0 - {d} 1 {eos}"), format!("ok {}", show_list(dest)), tag);
            stopped = true;
            break;
        }
        // ---- C side: llg_compute_mask
        let mut mres: LlgMaskResult = unsafe { std::mem::zeroed() };
        let rcode = llg_compute_mask(unsafe { &mut *cc }, &mut mres);
        if rcode != 0 {
            rep.fail("oracle", "c17:compute-mask-rc", format!("step {step}: llg_compute_mask rc={rcode} err={:?}", cerr(cc)), case.clone());
            break;
        }
        let cmask: Option<Vec<u32>> = if mres.sample_mask.is_null() {
            None
        } else {
            Some(unsafe { std::slice::from_raw_parts(mres.sample_mask, mask_words) }.to_vec())
        };
        if cmask != rmask || mres.is_stop != ris_stop {
            rep.fail("oracle", "c17:mask-differs", format!("step {step}: llg_compute_mask differs from Constraint::compute_mask"), case.clone());
            break;
        }
        if let Some(m) = &rmask {
            if m.len() != mask_words {
                rep.fail("model", "c17:mask-words", format!("mask storage {} words, expected {}", m.len(), mask_words), case.clone());
            }
            rep.nontrivial(format!("{}|{}|{}", case["grammar"], vocab_n, show_list(m)));
        }
        // ---- matcher (C vs Rust)
        if !cm.is_null() {
            let cm_r = unsafe { &mut *cm };
            let r_m = rm.compute_mask_or_eos();
            let rc2 = llg_matcher_compute_mask(cm_r);
            match (&r_m, rc2) {
                (Ok(m), 0) => {
                    let p = llg_matcher_get_mask(cm_r);
                    let bl = llg_matcher_get_mask_byte_size(cm_r);
                    if bl != 4 * ((vocab_n + 31) / 32) || bl / 4 > m.as_slice().len() {
                        rep.fail("oracle", "c17:matcher-mask-size", format!("llg_matcher_get_mask_byte_size={bl} for vocab {vocab_n} (storage {} words)", m.as_slice().len()), case.clone());
                    } else if !p.is_null() {
                        let cmw = unsafe { std::slice::from_raw_parts(p, bl / 4) };
                        if cmw != &m.as_slice()[..bl / 4] {
                            rep.fail("oracle", "c17:matcher-mask-differs", format!("step {step}: matcher masks differ"), case.clone());
                        }
                    }
                    // compute_mask_into with exact, shorter and longer byte lengths
                    for bl2 in [bl, bl.saturating_sub(4), bl + 4] {
                        let mut buf = vec![FILL; bl2 / 4 + 2 * PAD];
                        for i in 0..PAD {
                            buf[i] = CANARY;
                            let n = buf.len();
                            buf[n - 1 - i] = CANARY;
                        }
                        let rc3 = unsafe { llg_matcher_compute_mask_into(cm_r, buf.as_mut_ptr().add(PAD), bl2) };
                        let ok_can = (0..PAD).all(|i| buf[i] == CANARY && buf[buf.len() - 1 - i] == CANARY);
                        if !ok_can {
                            rep.fail("oracle", "c17:into-canary", format!("llg_matcher_compute_mask_into wrote outside buffer (byte_len {bl2})"), case.clone());
                        }
                        let got = if rc3 == 0 { format!("ok {}", show_list(&buf[PAD..PAD + bl2 / 4])) } else { "err".to_string() };
                        if rc3 == 0 && bl2 != bl {
                            rep.fail("oracle", "c17:into-size", format!("compute_mask_into accepted byte_len {bl2} for mask of {bl} bytes"), case.clone());
                        }
                        if rc3 == 0 && buf[PAD..PAD + bl2 / 4] != m.as_slice()[..bl2 / 4] {
                            rep.fail("oracle", "c17:into-differs", format!("compute_mask_into result differs from Matcher::compute_mask"), case.clone());
                        }
                        if rc3 != 0 && bl2 == bl {
                            rep.fail("oracle", "c17:into-rc", format!("compute_mask_into failed with the advertised size {bl}"), case.clone());
                        }
                        mb.push(format!("maskinto {} {} {} {}", m.len(), show_list(m.as_slice()), vocab_n, bl2), got.clone(), tag);
                    }
                }
                (Err(_), rc2) if rc2 != 0 => {}
                (a, b) => {
                    rep.fail("oracle", "c17:matcher-rc", format!("step {step}: Rust matcher ok={} C rc={b}", a.is_ok()), case.clone());
                }
            }
        }

        // ---- llg_par_compute_mask with many destination lengths
        let dests: Vec<usize> = {
            let mut v: Vec<usize> = (0..=mask_words + 3).collect();
            v.extend([mask_words + 17, mask_words + 64, 2 * mask_words + 1]);
            v
        };
        for &d in &dests {
            let mut buf = vec![FILL; d + 2 * PAD];
            for i in 0..PAD {
                buf[i] = CANARY;
                let n = buf.len();
                buf[n - 1 - i] = CANARY;
            }
            let stepd = LlgConstraintStep { constraint: cc, mask_dest: unsafe { buf.as_mut_ptr().add(PAD) }, mask_byte_len: d * 4 };
            unsafe { llg_par_compute_mask(&stepd, 1, std::ptr::null(), None) };
            rep.count("par_copy_calls");
            if let Some(e) = cerr(cc) {
                rep.fail("oracle", "c17:par-error", format!("llg_par_compute_mask set error: {e}"), case.clone());
                break;
            }
            let dest = &buf[PAD..PAD + d];
            let ok_can = (0..PAD).all(|i| buf[i] == CANARY && buf[buf.len() - 1 - i] == CANARY);
            if !ok_can {
                rep.fail("oracle", "c17:par-canary", format!("step {step}: write outside caller buffer (d={d} words)"), json!({"case": case, "d": d, "step": step}));
            }
            // property oracle: equals mask on common prefix, zero beyond, only real ids
            let mut bad = None;
            for i in 0..d {
                let exp = match &rmask {
                    Some(m) if i < m.len() => m[i],
                    _ => 0,
                };
                let exp = if ris_stop && (eos as usize) / 32 == i { exp | (1 << (eos % 32)) } else { exp };
                if dest[i] != exp {
                    bad = Some((i, dest[i], exp));
                    break;
                }
            }
            if let Some((i, got, exp)) = bad {
                let sig = if i >= mask_words { "c17:par-tail-nonzero" } else { "c17:par-prefix-differs" };
                rep.fail("oracle", sig, format!("step {step}: d={d} words, word {i} = {got:#x}, expected {exp:#x} (mask has {mask_words} words, vocab {vocab_n})"), json!({"case": case, "d": d, "step": step}));
            }
            for t in vocab_n..(32 * d) {
                if dest[t / 32] & (1 << (t % 32)) != 0 {
                    rep.fail("oracle", "c17:par-bit-ge-vocab", format!("step {step}: d={d}: bit {t} >= vocab {vocab_n} set"), json!({"case": case, "d": d, "step": step}));
                    break;
                }
            }
            // model: Lean parCopy
            let (has, size, ws) = match &rmask {
                Some(m) => (1, vocab_n, show_list(m)),
                None => (0, 0, "-".to_string()),
            };
            mb.push(
                format!("parcopy {has} {size} {ws} {d} {} {eos}", if ris_stop { 1 } else { 0 }),
                format!("ok {}", show_list(dest)),
                tag,
            );
        }
        if ris_stop {
            stopped = true;
            break;
        }
        // ---- commit a random allowed token through both APIs
        let allowed: Vec<u32> = {
            let m = rmask.as_ref().unwrap();
            (0..vocab_n as u32).filter(|t| m[(*t / 32) as usize] & (1 << (t % 32)) != 0).collect()
        };
        if allowed.is_empty() {
            break;
        }
        let t = *rng.pick(&allowed);
        // validate through both
        if !cm.is_null() && !llg_matcher_is_error(unsafe { &*cm }) {
            let toks = [t, *rng.pick(&allowed)];
            let rv = rm.validate_tokens(&toks);
            let cv = unsafe { llg_matcher_validate_tokens(&mut *cm, toks.as_ptr(), toks.len()) };
            match rv {
                Ok(n) if n as i32 == cv => {}
                Ok(n) => rep.fail("oracle", "c17:validate-differs", format!("validate_tokens {toks:?}: Rust {n}, C {cv}"), case.clone()),
                Err(_) if cv < 0 => {}
                Err(e) => rep.fail("oracle", "c17:validate-differs", format!("validate_tokens: Rust err {e}, C {cv}"), case.clone()),
            }
            let r1 = rm.consume_token(t).is_ok();
            let c1 = llg_matcher_consume_token(unsafe { &mut *cm }, t) == 0;
            if r1 != c1 {
                rep.fail("oracle", "c17:matcher-consume-differs", format!("consume {t}: Rust {r1} C {c1}"), case.clone());
            }
            // ff tokens
            let rff = rm.compute_ff_tokens();
            let mut out = vec![0u32; 64];
            let n = unsafe { llg_matcher_compute_ff_tokens(&mut *cm, out.as_mut_ptr(), out.len()) };
            if n < 0 || rff.len() != n as usize || rff[..] != out[..n as usize] {
                rep.fail("oracle", "c17:ff-differs", format!("compute_ff_tokens: Rust {rff:?}, C n={n}"), case.clone());
            }
            // every destination capacity around the number of forced tokens: the return value is the number written,
            // min(N, capacity); nothing beyond it is touched
            {
                let nff = rff.len();
                if nff > 0 { rep.count("ff.states_with_forced_tokens"); }
                for cap in [0usize, 1, nff.saturating_sub(1), nff, nff + 1, nff + 5] {
                    let mut buf = vec![0xDEADBEEFu32; cap + 4];
                    let n = unsafe { llg_matcher_compute_ff_tokens(&mut *cm, buf.as_mut_ptr().add(2), cap) };
                    let want = nff.min(cap);
                    if n != want as i32 || buf[2..2 + want] != rff[..want] || buf[..2].iter().chain(buf[2 + want..].iter()).any(|x| *x != 0xDEADBEEF) {
                        rep.fail("oracle", "c17:ff-capacity", format!("llg_matcher_compute_ff_tokens with capacity {cap}: returned {n}, wrote {:?}; the engine forces {rff:?} (expected return {want})", &buf), case.clone());
                        break;
                    }
                }
            }
            // occasional rollback through both
            if rng.chance(1, 4) {
                let r2 = rm.rollback(1).is_ok();
                let c2 = llg_matcher_rollback(unsafe { &mut *cm }, 1) == 0;
                if r2 != c2 {
                    rep.fail("oracle", "c17:rollback-differs", format!("rollback: Rust {r2} C {c2}"), case.clone());
                }
                if r2 {
                    let _ = rm.consume_token(t);
                    let _ = llg_matcher_consume_token(unsafe { &mut *cm }, t);
                }
            }
        }
        let rcr = rc.commit_token(Some(t));
        let mut ccr: LlgCommitResult = unsafe { std::mem::zeroed() };
        let rc4 = llg_commit_token(unsafe { &mut *cc }, t, &mut ccr);
        match rcr {
            Ok(r) => {
                let ctoks: Vec<u32> = if ccr.n_tokens == 0 { vec![] } else { unsafe { std::slice::from_raw_parts(ccr.tokens, ccr.n_tokens as usize) }.to_vec() };
                if rc4 != 0 || ctoks != r.ff_tokens || ccr.is_stop != r.stop {
                    rep.fail("oracle", "c17:commit-differs", format!("commit {t}: Rust {:?}/{} C rc={rc4} {:?}/{}", r.ff_tokens, r.stop, ctoks, ccr.is_stop), case.clone());
                    break;
                }
            }
            Err(_) => {
                if rc4 == 0 {
                    rep.fail("oracle", "c17:commit-differs", format!("commit {t}: Rust error, C ok"), case.clone());
                }
                break;
            }
        }
    }
    // out-of-range token id through the C API must be an error, not a crash
    if !stopped {
        let mut mres: LlgMaskResult = unsafe { std::mem::zeroed() };
        if llg_compute_mask(unsafe { &mut *cc }, &mut mres) == 0 && !mres.is_stop {
            let mut ccr: LlgCommitResult = unsafe { std::mem::zeroed() };
            let rc5 = llg_commit_token(unsafe { &mut *cc }, vocab_n as u32 + 7, &mut ccr);
            if rc5 == 0 {
                rep.fail("oracle", "c17:oob-token-accepted", format!("llg_commit_token accepted id {} >= vocab {vocab_n}", vocab_n + 7), case.clone());
            }
        }
    }
    rep.sample(json!({"grammar": case["grammar"], "vocab": vocab_n, "mask_words": mask_words, "steps": steps}));
    unsafe {
        llg_free_constraint(cc);
        if !cm.is_null() {
            llg_free_matcher(cm);
        }
    }
    let _ = ctx;
}
