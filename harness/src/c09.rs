//! C09 — repetition counts and length bounds are exact.
//!
//! Exhaustive over 0 <= m <= n <= N at rule, terminal and regex level (plus `{m,}`, `*`, `+`,
//! `?`), every count 0..n+3: accepted iff in range (impl-vs-spec), and the accepted counts at rule
//! level are compared with the counts derived by the Lean model M11 of the factorisation for the
//! code's own block size K (impl-vs-model).  JSON minItems/maxItems, minLength/maxLength (ASCII,
//! 2-, 3- and 4-byte characters, escapes) and min/maxProperties likewise.
use serde_json::{json, Value};

use crate::eng::World;
use crate::engine::Gram;
use crate::model::{show_list, ModelBatch};
use crate::report::Report;
use crate::rng::Rng;
use crate::vocab;
use crate::Ctx;
use llguidance::Matcher;

pub fn gen_case(_rng: &mut Rng, idx: usize, thorough: bool) -> Value {
    // deterministic enumeration: case idx covers one value of m (and all n), or one JSON family
    let nmax = if thorough { 60 } else { 34 };
    if idx <= nmax {
        json!({"kind": "lark", "m": idx, "nmax": nmax})
    } else {
        json!({"kind": "json", "which": idx - nmax - 1, "nmax": if thorough { 24 } else { 14 }})
    }
}

fn accepts(base: &Matcher, s: &[u8]) -> bool {
    let mut m = base.deep_clone();
    let toks: Vec<u32> = s.iter().map(|b| *b as u32).collect();
    if toks.is_empty() {
        return m.is_accepting().unwrap_or(false);
    }
    match m.validate_tokens(&toks) {
        Ok(k) if k == toks.len() => {}
        _ => return false,
    }
    if m.consume_tokens(&toks).is_err() {
        return false;
    }
    m.is_accepting().unwrap_or(false) || (m.is_stopped() && format!("{:?}", m.stop_reason()) == "NoExtension")
}

fn check_counts(w: &World, g: &Gram, unit: &[u8], pre: &[u8], post: &[u8], sep: &[u8], m: usize, n: Option<usize>, upto: usize,
                what: &str, rep: &mut Report, case: &Value) -> Option<Vec<usize>> {
    let base = w.matcher(g);
    if base.is_error() {
        rep.fail("spec", &format!("c09:{what}-rejected"), format!("{what} m={m} n={n:?} rejected: {}", crate::eng::err_class(&base.get_error().unwrap_or_default())), json!({"case": case, "grammar": g.to_json()}));
        return None;
    }
    let mut got = vec![];
    for c in 0..=upto {
        rep.evaluations += 1;
        let mut s = pre.to_vec();
        for i in 0..c {
            if i > 0 { s.extend_from_slice(sep); }
            s.extend_from_slice(unit);
        }
        s.extend_from_slice(post);
        let a = accepts(&base, &s);
        let exp = c >= m && n.map_or(true, |n| c <= n);
        if a { got.push(c); }
        if a != exp {
            rep.fail("spec", &format!("c09:{what}-count"), format!("{what} {{{m},{}}}: count {c} accepted={a}, expected {exp}", n.map_or("".to_string(), |n| n.to_string())),
                json!({"case": case, "grammar": g.to_json(), "count": c}));
        }
    }
    rep.nontrivial(format!("{what}|{m}|{n:?}"));
    Some(got)
}

pub fn run_case(_ctx: &Ctx, case: &Value, tag: usize, rep: &mut Report, mb: &mut ModelBatch) {
    let sb = vocab::single_byte_words();
    let eos = sb.len() as u32 - 1;
    let Ok(w) = World::new(sb, eos, false, None) else { rep.skip("world"); return; };
    let k = llguidance::verif::VERIF_REPEAT_K;
    rep.exhaustive = true;
    if case["kind"] == "lark" {
        let m = case["m"].as_u64().unwrap() as usize;
        let nmax = case["nmax"].as_u64().unwrap() as usize;
        for n in m..=nmax {
            if n == 0 { continue; } // {0,0} is a syntax error by design
            let upto = n + 3;
            // rule level: grammar-level factorisation
            let g = Gram::Lark(format!("start: \"a\"{{{m},{n}}}\n"));
            if let Some(got) = check_counts(&w, &g, b"a", b"", b"", b"", m, Some(n), upto, "rule", rep, case) {
                mb.push(format!("rep counts {k} {m} {n} {upto}"), format!("ok {}", show_list(&got)), tag);
            }
            // rule level with a two-byte element and surrounding literals
            if n % 5 == 0 || n == m {
                let g = Gram::Lark(format!("start: \"<\" item{{{m},{n}}} \">\"\nitem: \"xy\"\n"));
                check_counts(&w, &g, b"xy", b"<", b">", b"", m, Some(n), upto, "rule-item", rep, case);
            }
            // terminal level
            let g = Gram::Lark(format!("start: T\nT: \"a\"{{{m},{n}}}\n"));
            check_counts(&w, &g, b"a", b"", b"", b"", m, Some(n), upto, "terminal", rep, case);
            // regex level
            let g = Gram::Lark(format!("start: /(ab){{{m},{n}}}/\n"));
            check_counts(&w, &g, b"ab", b"", b"", b"", m, Some(n), upto, "regex", rep, case);
        }
        // unbounded forms
        let upto = m + 6;
        let g = Gram::Lark(format!("start: \"a\"{{{m},}}\n"));
        if let Some(got) = check_counts(&w, &g, b"a", b"", b"", b"", m, None, upto, "rule-unbounded", rep, case) {
            mb.push(format!("rep counts {k} {m} inf {upto}"), format!("ok {}", show_list(&got)), tag);
        }
        let g = Gram::Lark(format!("start: T\nT: \"a\"{{{m},}}\n"));
        check_counts(&w, &g, b"a", b"", b"", b"", m, None, upto, "terminal-unbounded", rep, case);
        let g = Gram::Regex(format!("(ab){{{m},}}"));
        check_counts(&w, &g, b"ab", b"", b"", b"", m, None, upto, "regex-unbounded", rep, case);
        if m == 0 {
            for (op, lo, hi) in [("*", 0usize, None), ("+", 1, None), ("?", 0, Some(1usize))] {
                let g = Gram::Lark(format!("start: \"a\"{op}\n"));
                check_counts(&w, &g, b"a", b"", b"", b"", lo, hi, 5, &format!("rule{op}"), rep, case);
                let g = Gram::Lark(format!("start: T\nT: \"a\"{op}\n"));
                check_counts(&w, &g, b"a", b"", b"", b"", lo, hi, 5, &format!("terminal{op}"), rep, case);
                let g = Gram::Regex(format!("(ab){op}"));
                check_counts(&w, &g, b"ab", b"", b"", b"", lo, hi, 5, &format!("regex{op}"), rep, case);
            }
        }
        rep.sample(json!({"kind": "lark", "m": m, "n_range": [m, nmax], "K": k}));
    } else {
        let which = case["which"].as_u64().unwrap() as usize;
        let nmax = case["nmax"].as_u64().unwrap() as usize;
        for m in 0..=nmax {
            for n in m..=nmax {
                if (m + n) % 3 != which % 3 && n != m && m != 0 { continue; }
                let upto = n + 2;
                match which % 4 {
                    0 => {
                        let g = Gram::Json(json!({"type":"array","items":{"const":1},"minItems":m,"maxItems":n}));
                        check_counts(&w, &g, b"1", b"[", b"]", b",", m, Some(n), upto, "json-items", rep, case);
                    }
                    1 => {
                        // characters of 1..4 bytes and an escape, each counting as one
                        for (what, unit) in [("ascii", &b"a"[..]), ("2byte", "é".as_bytes()), ("3byte", "日".as_bytes()), ("4byte", "🐢".as_bytes()), ("escape", &b"\\n"[..])] {
                            if what != "ascii" && (m + n) % 2 == 1 { continue; }
                            let g = Gram::Json(json!({"type":"string","minLength":m,"maxLength":n}));
                            check_counts(&w, &g, unit, b"\"", b"\"", b"", m, Some(n), upto, &format!("json-length-{what}"), rep, case);
                            // the same bounds on *literals* (enum members): the compiler decides them once, from the literal's length
                            if what != "escape" && n <= 6 {
                                let unit_s = String::from_utf8_lossy(unit).to_string();
                                let lits: Vec<String> = (0..=upto).map(|k| unit_s.repeat(k)).collect();
                                let g = Gram::Json(json!({"enum": lits, "minLength": m, "maxLength": n}));
                                let base = w.matcher(&g);
                                if base.is_error() {
                                    rep.fail("spec", "c09:json-literal-length-rejected", format!("enum of literals with min/maxLength {m},{n} rejected: {}", crate::eng::err_class(&base.get_error().unwrap_or_default())), json!({"case": case, "grammar": g.to_json()}));
                                    continue;
                                }
                                for (k, lit) in lits.iter().enumerate() {
                                    rep.evaluations += 1;
                                    let text = serde_json::to_string(lit).unwrap();
                                    let a = accepts(&base, text.as_bytes());
                                    let exp = k >= m && k <= n;
                                    if a != exp {
                                        rep.fail("spec", "c09:json-literal-length", format!("enum literal of {k} characters ({what}) under min/maxLength {m},{n}: accepted={a}, expected {exp}"), json!({"case": case, "grammar": g.to_json(), "literal": lit}));
                                    }
                                }
                                rep.count(&format!("json-literal-length-{what}"));
                            }
                        }
                    }
                    2 => {
                        if n > 9 { continue; }
                        // keys k0..k(c-1) in order
                        let g = Gram::Json(json!({"type":"object","additionalProperties":{"const":0},"minProperties":m,"maxProperties":n}));
                        let base = w.matcher(&g);
                        if base.is_error() {
                            rep.fail("spec", "c09:json-props-rejected", format!("min/maxProperties {m},{n} rejected: {}", crate::eng::err_class(&base.get_error().unwrap_or_default())), json!({"case": case, "grammar": g.to_json()}));
                            continue;
                        }
                        for c in 0..=upto.min(11) {
                            rep.evaluations += 1;
                            let body: Vec<String> = (0..c).map(|i| format!("\"k{i}\":0")).collect();
                            let s = format!("{{{}}}", body.join(","));
                            let a = accepts(&base, s.as_bytes());
                            let exp = c >= m && c <= n;
                            if a != exp {
                                rep.fail("spec", "c09:json-props-count", format!("min/maxProperties {m},{n}: {c} properties accepted={a}, expected {exp}"), json!({"case": case, "grammar": g.to_json(), "count": c}));
                            }
                        }
                        rep.nontrivial(format!("json-props|{m}|{n}"));
                        // with R required (listed) properties before the additional ones, and one optional listed property
                        if n <= 6 {
                            for r in 1..=3usize {
                                for with_opt in [false, true] {
                                    let mut props = serde_json::Map::new();
                                    let mut req = vec![];
                                    for i in 0..r { props.insert(format!("r{i}"), json!({"const":0})); req.push(json!(format!("r{i}"))); }
                                    if with_opt { props.insert("o0".into(), json!({"const":0})); }
                                    let g = Gram::Json(json!({"type":"object","properties":props,"required":req,"additionalProperties":{"const":0},"minProperties":m,"maxProperties":n}));
                                    let base = w.matcher(&g);
                                    if base.is_error() {
                                        let msg = base.get_error().unwrap_or_default();
                                        if msg.contains("only supported when") { rep.skip("min/maxProperties-with-optional-listed-keys-unsupported"); continue; }
                                        if n >= r { rep.fail("spec", "c09:json-props-rejected", format!("min/maxProperties {m},{n} with {r} required rejected: {}", crate::eng::err_class(&base.get_error().unwrap_or_default())), json!({"case": case, "grammar": g.to_json()})); }
                                        continue;
                                    }
                                    for extra in 0..=(n + 2).saturating_sub(r).min(6) {
                                        for opt_present in if with_opt { vec![false, true] } else { vec![false] } {
                                            rep.evaluations += 1;
                                            let mut body: Vec<String> = (0..r).map(|i| format!("\"r{i}\":0")).collect();
                                            if opt_present { body.push("\"o0\":0".into()); }
                                            body.extend((0..extra).map(|i| format!("\"k{i}\":0")));
                                            let c = body.len();
                                            let s = format!("{{{}}}", body.join(","));
                                            let a = accepts(&base, s.as_bytes());
                                            let exp = c >= m && c <= n;
                                            if a != exp {
                                                rep.fail("spec", "c09:json-props-count", format!("min/maxProperties {m},{n}, {r} required{}: {c} members accepted={a}, expected {exp}", if with_opt { " + 1 optional" } else { "" }), json!({"case": case, "grammar": g.to_json(), "instance": s}));
                                            }
                                        }
                                    }
                                }
                            }
                        }
                    }
                    _ => {
                        let g = Gram::Json(json!({"type":"array","prefixItems":[{"const":"p"}],"items":{"enum":[1,2]},"minItems":m,"maxItems":n}));
                        // first element is "p", then 1s
                        let base = w.matcher(&g);
                        if base.is_error() {
                            // e.g. maxItems smaller than required prefix is still satisfiable; report only unexpected rejections
                            rep.fail("spec", "c09:json-prefix-rejected", format!("prefixItems min/max {m},{n} rejected: {}", crate::eng::err_class(&base.get_error().unwrap_or_default())), json!({"case": case, "grammar": g.to_json()}));
                            continue;
                        }
                        for c in 0..=upto {
                            rep.evaluations += 1;
                            let mut items: Vec<String> = vec![];
                            for i in 0..c { items.push(if i == 0 { "\"p\"".into() } else { "1".into() }); }
                            let s = format!("[{}]", items.join(","));
                            let a = accepts(&base, s.as_bytes());
                            let exp = c >= m && c <= n;
                            if a != exp {
                                rep.fail("spec", "c09:json-prefix-count", format!("prefixItems min/max {m},{n}: {c} items accepted={a}, expected {exp}"), json!({"case": case, "grammar": g.to_json(), "count": c}));
                            }
                        }
                        rep.nontrivial(format!("json-prefix|{m}|{n}"));
                    }
                }
            }
        }
        rep.sample(json!({"kind": "json", "which": which % 4, "nmax": nmax}));
    }
}
