//! C04 — a regular-expression constraint admits exactly the regex's language.
//!
//! impl-vs-spec: random regex ASTs printed (a) as regex text through `from_regex`, (b) as a Lark
//! `/.../` terminal, (c) as a Lark terminal expression (`|`, juxtaposition, `?*+{m,n}`, `&`, `~`,
//! `"x"i`, `"a".."z"`).  For byte strings (exhaustive over a per-regex alphabet up to a length
//! bound, plus sampled members and mutations) complete acceptance and the viable prefix length are
//! compared with the Lean decider (checked DFA certificate, `dfa_decides`); over a multi-byte
//! vocabulary every token's mask membership is compared with viability of bytes-so-far + token.
use serde_json::{json, Value};

use crate::eng::World;
use crate::engine::Gram;
use crate::model::ModelBatch;
use crate::report::Report;
use crate::rng::Rng;
use crate::rx::{gen_rx, Rx, ALPHA};
use crate::utf8rx::byte_sexp;
use crate::vocab::{self, hex_or_underscore};
use crate::Ctx;

pub fn gen_rx_ext(rng: &mut Rng, depth: u32) -> Rx {
    // occasionally wrap with & / ~ (Lark-only operators)
    let base = gen_rx(rng, depth);
    match rng.below(8) {
        0 => Rx::And(vec![base, Rx::Rep(Box::new(Rx::Class(vec![('a', 'z'), ('0', '9'), (' ', ' ')], false)), 0, None)]),
        1 => Rx::And(vec![Rx::Rep(Box::new(Rx::Class(vec![('a', 'c'), ('x', 'x')], false)), 0, Some(4)), Rx::Not(Box::new(Rx::Cat(vec![Rx::Rep(Box::new(Rx::Dot), 0, None), Rx::Lit("ab".into()), Rx::Rep(Box::new(Rx::Dot), 0, None)])))]),
        2 => Rx::And(vec![base.clone(), Rx::Not(Box::new(gen_rx(rng, 1)))]),
        _ => base,
    }
}

pub fn gen_case(rng: &mut Rng, idx: usize, thorough: bool) -> Value {
    if idx < 2 {
        // exhaustive sweep of `%regex substring_chars` over every string over a two-letter alphabet
        // (idx 0: ASCII, idx 1: two-byte characters) up to a length bound, judged by brute force
        return json!({"substring_sweep": if idx == 0 { "ab" } else { "éß" }, "maxsrc": if thorough { 11 } else { 9 }, "form": 4, "seed": 1, "maxlen": 0});
    }
    if idx % 4 == 3 {
        // %regex substring: chunks; the spec is the alternation of all concatenations chunks[n..m].
        // Repetitive sources over tiny alphabets exercise the suffix-automaton clone path.
        let chunks: Vec<String> = match (idx / 4) % 3 {
            0 => {
                let n = 1 + rng.below(5);
                let pool = ["ab", "c", " ", "é", "x", "日本", "ab", "."];
                (0..n).map(|_| rng.pick(&pool).to_string()).collect()
            }
            1 => {
                let alpha: &[&str] = if rng.chance(1, 3) { &["é", "ß"] } else if rng.chance(1, 2) { &["a", "b"] } else { &["a", "b", "c"] };
                let n = 5 + rng.below(if thorough { 14 } else { 9 });
                (0..n).map(|_| rng.pick(alpha).to_string()).collect()
            }
            _ => {
                let pool = ["na", "ba", "na", "€", "あ", "na"];
                let n = 4 + rng.below(6);
                (0..n).map(|_| rng.pick(&pool).to_string()).collect()
            }
        };
        return json!({"substring": chunks, "form": 3, "seed": rng.next() % 1_000_000_000, "maxlen": if thorough { 5 } else { 4 }});
    }
    if (4..7).contains(&idx) {
        // directed: escaped slashes followed by another escape, a metacharacter or a class letter, given as
        // regex text through `from_regex` (the regex-to-Lark rewriter treats `\/` separately)
        let az = Rx::Rep(Box::new(Rx::Class(vec![('a', 'z')], false)), 1, None);
        let r = match idx {
            4 => Rx::Cat(vec![Rx::Lit("http".into()), Rx::Rep(Box::new(Rx::Lit("s".into())), 0, Some(1)), Rx::Lit("://".into()), az]),
            5 => Rx::Cat(vec![Rx::Lit("foo/".into()), Rx::Dot]),
            _ => Rx::Alt(vec![Rx::Lit("a/dd".into()), Rx::Cat(vec![Rx::Lit("/".into()), Rx::Class(vec![('0', '9')], false)])]),
        };
        return json!({"rx": rx_to_json(&r), "form": 0, "seed": rng.next() % 1_000_000_000, "maxlen": if thorough { 5 } else { 4 }});
    }
    let r = gen_rx_ext(rng, 3);
    let form = if r.has_and_not() { 2 } else { idx % 3 };
    json!({"rx": rx_to_json(&r), "form": form, "seed": rng.next() % 1_000_000_000, "maxlen": if thorough { 5 } else { 4 }})
}

pub fn rx_to_json(r: &Rx) -> Value {
    match r {
        Rx::Lit(s) => json!({"lit": s}),
        Rx::LitI(s) => json!({"liti": s}),
        Rx::Class(rs, n) => json!({"cls": rs.iter().map(|(a, b)| vec![*a as u32, *b as u32]).collect::<Vec<_>>(), "neg": n}),
        Rx::Dot => json!({"dot": true}),
        Rx::Cat(xs) => json!({"cat": xs.iter().map(rx_to_json).collect::<Vec<_>>()}),
        Rx::Alt(xs) => json!({"alt": xs.iter().map(rx_to_json).collect::<Vec<_>>()}),
        Rx::And(xs) => json!({"and": xs.iter().map(rx_to_json).collect::<Vec<_>>()}),
        Rx::Not(x) => json!({"not": rx_to_json(x)}),
        Rx::Rep(x, m, n) => json!({"rep": rx_to_json(x), "m": m, "n": n}),
    }
}

pub fn rx_from_json(v: &Value) -> Rx {
    let arr = |k: &str| v[k].as_array().unwrap().iter().map(rx_from_json).collect::<Vec<_>>();
    if let Some(s) = v.get("lit") { Rx::Lit(s.as_str().unwrap().into()) }
    else if let Some(s) = v.get("liti") { Rx::LitI(s.as_str().unwrap().into()) }
    else if v.get("cls").is_some() {
        Rx::Class(v["cls"].as_array().unwrap().iter().map(|p| (char::from_u32(p[0].as_u64().unwrap() as u32).unwrap(), char::from_u32(p[1].as_u64().unwrap() as u32).unwrap())).collect(), v["neg"].as_bool().unwrap())
    }
    else if v.get("dot").is_some() { Rx::Dot }
    else if v.get("cat").is_some() { Rx::Cat(arr("cat")) }
    else if v.get("alt").is_some() { Rx::Alt(arr("alt")) }
    else if v.get("and").is_some() { Rx::And(arr("and")) }
    else if v.get("not").is_some() { Rx::Not(Box::new(rx_from_json(&v["not"]))) }
    else { Rx::Rep(Box::new(rx_from_json(&v["rep"])), v["m"].as_u64().unwrap() as u32, v["n"].as_u64().map(|n| n as u32)) }
}

fn grammar_of(r: &Rx, form: usize) -> Gram {
    match form {
        0 => Gram::Regex(r.to_regex()),
        1 => Gram::Lark(format!("start: T\nT: /{}/\n", r.to_regex())),
        _ => Gram::Lark(format!("start: T\nT: {}\n", r.to_lark_term())),
    }
}

/// bytes that matter for this regex: bytes of sampled members plus a few others
fn test_strings(rng: &mut Rng, r: &Rx, maxlen: usize) -> Vec<Vec<u8>> {
    let mut members: Vec<Vec<u8>> = vec![];
    for _ in 0..12 {
        let mut s = String::new();
        r.sample(rng, ALPHA, &mut s);
        if s.len() <= 24 {
            members.push(s.into_bytes());
        }
    }
    let mut alpha: Vec<u8> = members.iter().flatten().copied().collect();
    alpha.extend_from_slice(b"ab\n");
    alpha.push(0xc3);
    alpha.sort();
    alpha.dedup();
    // keep the exhaustive part bounded: at most 6 distinct bytes
    while alpha.len() > 6 {
        let i = rng.below(alpha.len());
        alpha.remove(i);
    }
    let mut out: Vec<Vec<u8>> = vec![vec![]];
    let mut frontier: Vec<Vec<u8>> = vec![vec![]];
    for _ in 0..maxlen {
        let mut next = vec![];
        for w in &frontier {
            for &b in &alpha {
                let mut x = w.clone();
                x.push(b);
                next.push(x);
            }
        }
        out.extend(next.iter().cloned());
        frontier = next;
        if out.len() > 2500 {
            break;
        }
    }
    for m in &members {
        out.push(m.clone());
        // mutations: drop / duplicate / replace a byte, truncate inside a UTF-8 character
        if !m.is_empty() {
            let i = rng.below(m.len());
            let mut x = m.clone(); x.remove(i); out.push(x);
            let mut x = m.clone(); x.insert(i, m[i]); out.push(x);
            let mut x = m.clone(); x[i] = *rng.pick(&alpha); out.push(x);
            let mut x = m.clone(); x.push(*rng.pick(&alpha)); out.push(x);
        }
    }
    out
}

fn run_substring_sweep(case: &Value, rep: &mut Report) {
    let alpha: Vec<String> = case["substring_sweep"].as_str().unwrap().chars().map(|c| c.to_string()).collect();
    let maxsrc = case["maxsrc"].as_u64().unwrap() as usize;
    let sb = vocab::single_byte_words();
    let eos = sb.len() as u32 - 1;
    let Ok(w1) = World::new(sb, eos, false, None) else { rep.skip("world"); return; };
    let mut sources: Vec<Vec<usize>> = vec![vec![]];
    let mut frontier: Vec<Vec<usize>> = vec![vec![]];
    for _ in 0..maxsrc {
        let mut next = vec![];
        for s in &frontier { for a in 0..alpha.len() { let mut x = s.clone(); x.push(a); next.push(x); } }
        sources.extend(next.iter().cloned());
        frontier = next;
    }
    rep.exhaustive = true;
    for src in sources.iter().filter(|s| s.len() >= 2) {
        rep.evaluations += 1;
        let text: String = src.iter().map(|i| alpha[*i].clone()).collect();
        let g = Gram::Lark(format!("start: T\nT: %regex {}\n", json!({"substring_chars": text})));
        let base = w1.matcher(&g);
        if base.is_error() {
            rep.fail("spec", "c04:substring-rejected", format!("substring_chars {text:?} rejected"), json!({"case": case, "source": text}));
            return;
        }
        // members: every contiguous run of characters (and the empty string); non-members: a few mutations
        let chars: Vec<&String> = src.iter().map(|i| &alpha[*i]).collect();
        let mut members: std::collections::HashSet<Vec<u8>> = Default::default();
        members.insert(vec![]);
        for a in 0..chars.len() { for b in a + 1..=chars.len() { members.insert(chars[a..b].iter().flat_map(|c| c.as_bytes().to_vec()).collect()); } }
        let mut tests: Vec<Vec<u8>> = members.iter().cloned().collect();
        for a in 0..alpha.len() { for b in 0..alpha.len() { for c in 0..alpha.len() {
            tests.push([alpha[a].as_bytes(), alpha[b].as_bytes(), alpha[c].as_bytes()].concat());
            tests.push([alpha[a].as_bytes(), alpha[b].as_bytes()].concat());
        } } }
        for t in tests {
            let exp = members.contains(&t);
            let mut m = base.deep_clone();
            let toks: Vec<u32> = t.iter().map(|b| *b as u32).collect();
            let k = if toks.is_empty() { 0 } else { m.validate_tokens(&toks).unwrap_or(0) };
            let got = k == t.len() && (toks.is_empty() || m.consume_tokens(&toks).is_ok()) && (m.is_accepting().unwrap_or(false) || m.is_stopped() && format!("{:?}", m.stop_reason()) == "NoExtension");
            // viable prefix: t is a prefix of some member
            let viable = members.iter().any(|mm| mm.len() >= t.len() && mm[..t.len()] == t[..]);
            if got != exp || (!t.is_empty() && (k == t.len()) != viable) {
                rep.fail("spec", "c04:substring-language", format!("substring_chars {text:?}: {:?} accepted={got} (expected {exp}), viable prefix={} (expected {viable})", String::from_utf8_lossy(&t), k == t.len()), json!({"case": case, "source": text, "string": vocab::hex(&t)}));
                return;
            }
        }
        rep.nontrivial(format!("sweep|{text}"));
    }
    rep.sample(json!({"substring_sweep": case["substring_sweep"], "sources": sources.len()}));
}

pub fn run_case(_ctx: &Ctx, case: &Value, tag: usize, rep: &mut Report, mb: &mut ModelBatch) {
    if case.get("substring_sweep").is_some() {
        run_substring_sweep(case, rep);
        return;
    }
    let form = case["form"].as_u64().unwrap() as usize;
    let (r, sub_g) = if let Some(chunks) = case.get("substring").and_then(|c| c.as_array()) {
        let ch: Vec<String> = chunks.iter().map(|c| c.as_str().unwrap().to_string()).collect();
        let mut alts = vec![Rx::Lit(String::new())];
        for a in 0..ch.len() {
            for b in a + 1..=ch.len() {
                alts.push(Rx::Lit(ch[a..b].concat()));
            }
        }
        (Rx::Alt(alts), Some(Gram::Lark(format!("start: T\nT: %regex {}\n", json!({"substring_chunks": ch})))))
    } else {
        (rx_from_json(&case["rx"]), None)
    };
    let maxlen = case["maxlen"].as_u64().unwrap() as usize;
    let mut rng = Rng::new(case["seed"].as_u64().unwrap());
    let g = sub_g.unwrap_or_else(|| grammar_of(&r, form));
    // single-byte world for per-string checks
    let sb = vocab::single_byte_words();
    let eos = sb.len() as u32 - 1;
    let Ok(w1) = World::new(sb, eos, false, None) else { rep.skip("world"); return; };
    let base = w1.matcher(&g);
    if base.is_error() {
        rep.skip(&format!("rejected:{}", crate::eng::err_class(&base.get_error().unwrap_or_default())));
        return;
    }
    rep.evaluations += 1;
    rep.count(&format!("form.{form}"));
    let mut strings = test_strings(&mut rng, &r, maxlen);
    if let Rx::Alt(alts) = &r {
        if case.get("substring").is_some() {
            // every member of the finite language
            for a in alts { if let Rx::Lit(s) = a { strings.push(s.as_bytes().to_vec()); } }
        }
    }
    let rid = tag;
    mb.push_guard(format!("rx def {rid} {}", byte_sexp(&r)), "ok*".into(), tag);
    // implementation answers: (viable prefix length, accepted)
    let mut queries: Vec<Vec<u8>> = vec![];
    let mut expect = String::new();
    let mut n_acc = 0;
    let mut n_rej = 0;
    for s in &strings {
        let mut m = base.deep_clone();
        let toks: Vec<u32> = s.iter().map(|b| *b as u32).collect();
        let k = if toks.is_empty() { 0 } else { m.validate_tokens(&toks).unwrap_or(0) };
        let accepted = if k == s.len() {
            let ok = toks.is_empty() || m.consume_tokens(&toks).is_ok();
            ok && (m.is_accepting().unwrap_or(false) || m.is_stopped() && format!("{:?}", m.stop_reason()) == "NoExtension")
        } else {
            false
        };
        if accepted { n_acc += 1 } else { n_rej += 1 }
        // spec queries: every prefix's viability is implied by: w[..k] viable, w[..k+1] not
        queries.push(s.clone());
        expect.push(if accepted { '1' } else { '0' });
        // the empty prefix is not a token: nothing is claimed about it when the language is empty
        expect.push(if s.is_empty() { '?' } else if k == s.len() { '1' } else { '0' });
        if k < s.len() {
            queries.push(s[..k].to_vec());
            expect.push_str(if k == 0 { "??" } else { "?1" }); // acceptance of the prefix is not asserted here
            queries.push(s[..k + 1].to_vec());
            expect.push_str("00");
        }
    }
    rep.count_n("strings", strings.len() as u64);
    rep.count_n("strings.accepted", n_acc);
    rep.count_n("strings.rejected", n_rej);
    if n_acc > 0 && n_rej > 0 {
        rep.nontrivial(format!("{}{}|{form}", case["rx"], case["substring"]));
    }
    mb.push(
        format!("rx qs {rid} {}", queries.iter().map(|q| hex_or_underscore(q)).collect::<Vec<_>>().join(",")),
        format!("ok {expect}"),
        tag,
    );
    // multi-byte vocabulary: mask membership of every token vs viability
    let texts: Vec<Vec<u8>> = strings.iter().rev().take(16).cloned().collect();
    let (words, eos2) = vocab::synth_words(&mut rng, &texts, 40, None);
    let Ok(w2) = World::new(words, eos2, false, None) else { return; };
    let mut m = w2.matcher(&g);
    if m.is_error() { return; }
    let mut sofar: Vec<u8> = vec![];
    let mut queries: Vec<Vec<u8>> = vec![];
    let mut expect = String::new();
    for _step in 0..6 {
        let Ok(mask) = m.compute_mask() else { break };
        let ids: Vec<u32> = mask.to_list();
        for (t, wd) in w2.words.iter().enumerate() {
            if wd.is_empty() || wd[0] == 0xff { continue; }
            let allowed = mask.is_allowed(t as u32);
            let mut q = sofar.clone();
            q.extend_from_slice(wd);
            queries.push(q);
            expect.push('?');
            expect.push(if allowed { '1' } else { '0' });
        }
        // EOS in mask iff the text so far is complete
        queries.push(sofar.clone());
        expect.push(if mask.is_allowed(w2.eos) { '1' } else { '0' });
        expect.push('?');
        rep.count("mask_states");
        let cands: Vec<u32> = ids.iter().copied().filter(|t| *t != w2.eos).collect();
        if cands.is_empty() { break; }
        let t = *rng.pick(&cands);
        if m.consume_token(t).is_err() { break; }
        sofar.extend_from_slice(&w2.words[t as usize]);
        if m.is_stopped() { break; }
    }
    if !queries.is_empty() {
        mb.push(
            format!("rx qs {rid} {}", queries.iter().map(|q| hex_or_underscore(q)).collect::<Vec<_>>().join(",")),
            format!("ok {expect}"),
            tag,
        );
    }
    // byte-level engine model M5 on the same grammar (state-by-state tie; last, because its guards end the case)
    let mut guides: Vec<Vec<u8>> = strings.iter().filter(|s| s.len() >= 2).cloned().collect();
    guides.sort_by(|a, b| b.len().cmp(&a.len()).then(a.cmp(b)));
    guides.truncate(6);
    crate::lx::lexer_tie(&w1, &g, &guides, case["seed"].as_u64().unwrap_or(5), tag, rep, mb);
    rep.sample(json!({"regex": match &g { Gram::Regex(s) => s.clone(), Gram::Lark(s) => s.clone(), _ => String::new() }, "strings": strings.len(), "accepted": n_acc}));
}
